#!/bin/bash
# Offline setup: monitor-side dependencies (icontract, deal) beside the repository's interpreter.
cd "$(dirname "$0")" || exit 1
if [ ! -d .deps/icontract ]; then
  /venv/bin/python -m pip install -q --no-index --find-links /opt/veriftools/wheels --target .deps icontract deal || exit 1
fi
/venv/bin/python -c "import sys; sys.path.append('.deps'); import icontract, deal; import httpx, cattrs; print('setup ok')"
