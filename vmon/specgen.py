"""Seeded OpenAPI document grammar + the expectation model built alongside each document.

Nothing here calls repository code: the expectation model is written down in the harness' own vocabulary while
the document is drawn. Features that trigger OPEN findings are only produced when listed in `allow`
(trigger classes); the clean grammar never produces them.
"""
from __future__ import annotations

import copy
import json
from typing import Any

STRING_FORMATS = [None, None, None, "date-time", "date", "email", "uri", "byte", "hostname"]
TRIGGER_FORMATS = ["uuid", "time", "binary"]

SCHEMA_NAMES = ["Pet", "Owner", "Order", "Invoice", "LineItem", "Address", "Customer", "Shipment", "Widget", "Gadget",
                "Account", "Profile", "Ticket", "Message", "Folder", "Document", "Report", "Metric", "Sensor", "Reading",
                # declared names that class-name derivation rewrites (the harness finds classes by an alphanumeric case-folded match)
                "HTTPValidationError", "user_profile", "OrderV2", "XMLFeed", "shipping-label"]
PROP_STYLES = {
    "camel": ["displayName", "createdAt", "itemCount", "isActive", "unitPrice", "postalCode", "lastSeenOn", "homeUrl"],
    "snake": ["display_name", "created_at", "item_count", "is_active", "unit_price", "postal_code", "last_seen_on", "home_url"],
    "kebab": ["display-name", "created-at", "item-count", "is-active", "unit-price", "postal-code", "last-seen-on", "home-url"],
    "keywordish": ["class", "from", "id", "type", "import", "global", "in", "pass"],
    "digit": ["2fa", "3dSecure", "9lives", "1st", "404s", "7zip", "0day", "5g"],
    "shadowing": ["date", "field", "dataclass", "time", "datetime", "list", "dict", "str"],
    "symbolic": ["$", "日本", "é", "%", "a b", "x.y", "@type", "_"],
}
TAGS = ["pets", "store", "users", "billing", "admin ops", "Reports"]
METHODS = ["get"] * 3 + ["post"] * 3 + ["put"] * 2 + ["patch"] * 2 + ["delete"] * 2 + ["options", "trace"]


def ref(name: str) -> dict:
    return {"$ref": f"#/components/schemas/{name}"}


class Gen:
    def __init__(self, rng, allow: set[str] | None = None, prof: dict | None = None) -> None:
        self.rng = rng
        self.allow = allow or set()
        self.prof = {"schemas": (3, 7), "ops": (2, 6), "styles": ["camel", "snake", "kebab", "keywordish", "digit", "shadowing", "symbolic"],
                     "p_param": 0.6, "p_body": 0.5, "p_errors": 0.5, "p_union": 0.25, "p_allof": 0.25,
                     "p_stream": 0.0, "p_multi2xx": 0.25, "max_props": 6}
        if prof:
            self.prof.update(prof)
        self.schemas: dict[str, Any] = {}
        self.sexp: dict[str, Any] = {}   # name -> expectation
        self.features: set[str] = set()
        self.ops: list[dict] = []
        self.paths: dict[str, Any] = {}
        self.opn = 0

    # ---------------------------------------------------------------- schemas
    def objects(self) -> list[str]:
        return [n for n, e in self.sexp.items() if e["kind"] == "object"]

    def enums(self) -> list[str]:
        return [n for n, e in self.sexp.items() if e["kind"] == "enum"]

    def prim(self, allow_fmt: bool = True) -> tuple[dict, dict]:
        """(schema node, expectation {kind, format})"""
        r = self.rng
        t = r.choice(["string", "string", "integer", "number", "boolean"])
        node: dict[str, Any] = {"type": t}
        exp = {"kind": t, "format": None}
        if t == "string" and allow_fmt:
            fmts = STRING_FORMATS + [f for f in TRIGGER_FORMATS if f"format_{f}" in self.allow]
            f = r.choice(fmts)
            if f:
                node["format"] = f
                exp["format"] = f
                self.features.add(f"format_{f}")
        elif t == "integer" and r.random() < 0.4:
            node["format"] = r.choice(["int32", "int64"])
        elif t == "number" and r.random() < 0.4:
            node["format"] = r.choice(["float", "double"])
        return node, exp

    def prop(self, owner: str, depth: int = 0) -> tuple[dict, dict]:
        r = self.rng
        objs, ens = self.objects(), self.enums()
        choices = ["prim", "prim", "prim", "array_prim", "inline_enum"]
        if objs:
            choices += ["ref", "ref", "array_ref", "map_ref"]
        if ens:
            choices += ["ref_enum"]
        choices += ["map_prim"]
        if depth == 0:
            choices += ["inline_obj"]
        if objs and len(objs) >= 2 and r.random() < self.prof["p_union"]:
            choices = ["union"]
        if depth == 0 and r.random() < self.prof.get("p_self_ref", 0.06):
            choices = ["self_ref"]
        if depth == 0 and "array_self_ref" in self.allow and r.random() < 0.3:
            choices = ["array_self_ref"]
        k = r.choice(choices)
        self.features.add(f"prop_{k}")
        if k == "self_ref":
            return ref(owner), {"kind": "ref", "target": owner, "self": True}
        if k == "array_self_ref":
            self.features.add("array_self_ref")
            return {"type": "array", "items": ref(owner)}, {"kind": "array", "items": {"kind": "ref", "target": owner}, "self": True}
        if k == "prim":
            node, e = self.prim()
            if r.random() < 0.2:
                node["nullable"] = True
                e["nullable"] = True
                self.features.add("nullable")
            if e["kind"] == "string" and not e["format"] and r.random() < 0.15:
                node["default"] = r.choice(["none", "x y", "d"])
                e["default"] = node["default"]
                self.features.add("default_string")
            elif e["kind"] == "integer" and r.random() < 0.15:
                node["default"] = 7
                e["default"] = 7
            elif e["kind"] == "boolean" and r.random() < 0.15:
                node["default"] = False
                e["default"] = False
            return node, e
        if k == "array_prim":
            inner, e = self.prim()
            return {"type": "array", "items": inner}, {"kind": "array", "items": e}
        if k == "inline_enum":
            vals = r.sample(["active", "inactive", "pending", "on-hold", "A", "b c"], r.randint(2, 4))
            node, e = {"type": "string", "enum": vals}, {"kind": "enum_inline", "values": vals}
            if r.random() < 0.3:
                node["default"] = e["default"] = r.choice(vals)     # an enum-typed field with a default member
                self.features.add("enum_default")
            return node, e
        if k == "ref":
            t = r.choice(objs)
            return ref(t), {"kind": "ref", "target": t}
        if k == "ref_enum":
            t = r.choice(ens)
            return ref(t), {"kind": "ref_enum", "target": t}
        if k == "array_ref":
            t = r.choice(objs)
            return {"type": "array", "items": ref(t)}, {"kind": "array", "items": {"kind": "ref", "target": t}}
        if k == "map_ref":
            t = r.choice(objs)
            return ({"type": "object", "additionalProperties": ref(t)},
                    {"kind": "map", "values": {"kind": "ref", "target": t}})
        if k == "map_prim":
            inner, e = self.prim(allow_fmt=False)
            if r.random() < self.prof.get("p_nullable_map_values", 0.3):
                inner["nullable"] = True
                e["nullable"] = True
                self.features.add("nullable_map_values")
            return {"type": "object", "additionalProperties": inner}, {"kind": "map", "values": e}
        if k == "inline_obj":
            props, pexp, req = {}, {}, []
            for nm in r.sample(["street", "city", "zip", "lat", "lon"], r.randint(1, 3)):
                node, e = self.prim(allow_fmt=False)
                props[nm] = node
                pexp[nm] = dict(e, required=False)
            if r.random() < 0.5:
                first = next(iter(props))
                req = [first]
                pexp[first]["required"] = True
            node = {"type": "object", "properties": props}
            if req:
                node["required"] = req
            return node, {"kind": "inline_object", "props": pexp}
        if k == "union":
            a, b = r.sample(objs, 2)
            kw = r.choice(["oneOf", "anyOf"])
            return {kw: [ref(a), ref(b)]}, {"kind": "union", "variants": [a, b]}
        raise AssertionError(k)

    def prop_names(self, n: int) -> list[str]:
        r = self.rng
        style = r.choice(self.prof["styles"])
        self.features.add(f"names_{style}")
        pool = list(PROP_STYLES[style])
        if r.random() < 0.5:
            pool += ["name", "count", "notes", "status", "total"]
        names = r.sample(pool, min(n, len(pool)))
        return names

    def add_object(self, name: str) -> None:
        r = self.rng
        n = r.randint(1, self.prof["max_props"])
        props, pexp, required = {}, {}, []
        for pn in self.prop_names(n):
            node, e = self.prop(name)
            if e["kind"] in ("union", "enum_inline", "map", "inline_object"):
                # inline unions / enums are promoted to schemas named after the bare property name; the clean grammar
                # keeps those names unique per document (reuse is the trigger class 'promoted_name_reuse')
                if "promoted_name_reuse" in self.allow:
                    self.features.add("promoted_name_reuse")
                else:
                    self.uniq = getattr(self, "uniq", 0) + 1
                    pn = f"{pn}{'-' if '-' in pn else ''}{'Q' if pn[-1].isdigit() else ''}{self.uniq}x"
            props[pn] = node
            isreq = r.random() < 0.4 and not e.get("self")
            if isreq:
                required.append(pn)
            pexp[pn] = dict(e, required=isreq)
        node: dict[str, Any] = {"type": "object", "properties": props}
        if required:
            node["required"] = required
        if r.random() < 0.3:
            node["description"] = f"{name} schema."
        parents = []
        objs = [o for o in self.objects() if not self.sexp[o].get("parents")]
        if objs and r.random() < self.prof["p_allof"]:
            p = r.choice(objs)
            # avoid key clashes with the parent to keep the expectation unambiguous
            inherited_norm = {"".join(ch for ch in x.lower() if ch.isalnum()) for x in self.sexp[p]["props"]}
            for k in list(props):
                # also avoid own/inherited names that collide after sanitisation (unitPrice vs unit_price):
                # collisions inside one namespace are C20's workload, not part of the clean grammar
                if k in self.sexp[p]["props"] or "".join(ch for ch in k.lower() if ch.isalnum()) in inherited_norm:
                    del props[k]
                    pexp.pop(k)
                    if k in required:
                        required.remove(k)
            if props:
                node = {"allOf": [ref(p), {"type": "object", "properties": props, **({"required": required} if required else {})}]}
                parents = [p]
                self.features.add("allof_parent")
                inherited = {k: dict(v) for k, v in self.sexp[p]["props"].items()}
                inherited.update(pexp)
                pexp = inherited
        self.schemas[name] = node
        self.sexp[name] = {"kind": "object", "props": pexp, "parents": parents}

    def add_enum(self, name: str) -> None:
        r = self.rng
        k = r.random()
        if k < 0.15:
            # values whose derived member names collide, together with a value that looks like the de-duplicated name
            vals = list(r.choice([["v1", "V1", "v1-1"], ["x y", "x_y", "X-Y", "x_y_1"], ["a.b", "a b", "A_B_2", "a-b", "a_b"], ["Up", "up", "UP", "up_1", "UP_2"]]))
            r.shuffle(vals)
            self.schemas[name] = {"type": "string", "enum": vals}
            self.features.add("enum_member_name_collisions")
        elif k < 0.7:
            vals: list[Any] = r.sample(["red", "green", "blue", "dark-blue", "Light Grey", "x1", "UPPER"], r.randint(2, 5))
            if "enum_sunder_value" in self.allow:
                vals.append("_x_")
                self.features.add("enum_sunder_value")
            self.schemas[name] = {"type": "string", "enum": vals}
        else:
            vals = r.sample([1, 2, 3, 10, 404], r.randint(2, 4))
            self.schemas[name] = {"type": "integer", "enum": vals}
            self.features.add("int_enum")
        self.sexp[name] = {"kind": "enum", "values": vals}

    def add_alias(self, name: str) -> None:
        r = self.rng
        objs = self.objects()
        if objs and r.random() < 0.6:
            t = r.choice(objs)
            self.schemas[name] = {"type": "array", "items": ref(t)}
            self.sexp[name] = {"kind": "array_alias", "items": {"kind": "ref", "target": t}}
            self.features.add("array_alias")
        else:
            node, e = self.prim(allow_fmt=False)
            self.schemas[name] = node
            self.sexp[name] = {"kind": "prim_alias", "prim": e}
            self.features.add("prim_alias")

    def build_schemas(self) -> None:
        r = self.rng
        lo, hi = self.prof["schemas"]
        names = r.sample(SCHEMA_NAMES, r.randint(lo, hi))
        for i, nm in enumerate(names):
            k = r.random()
            if i == 0 or k < 0.65:
                self.add_object(nm)
            elif k < 0.85:
                self.add_enum(nm)
            else:
                self.add_alias(nm)
        if "mutual_ref" in self.allow:
            objs = [o for o in self.objects() if "allOf" not in self.schemas[o]]
            if len(objs) >= 2:
                a, b = objs[0], objs[-1]
                via_array = r.random() < 0.5
                self.schemas[a]["properties"]["backLink"] = {"type": "array", "items": ref(b)} if via_array else ref(b)
                self.schemas[b]["properties"]["fwdLink"] = ref(a)
                self.sexp[a]["props"]["backLink"] = ({"kind": "array", "items": {"kind": "ref", "target": b}} if via_array
                                                     else {"kind": "ref", "target": b})
                self.sexp[a]["props"]["backLink"]["required"] = False
                self.sexp[b]["props"]["fwdLink"] = {"kind": "ref", "target": a, "required": False}
                self.features.add("mutual_ref")

    # ---------------------------------------------------------------- operations
    def param(self, loc: str, idx: int) -> tuple[dict, dict]:
        r = self.rng
        base = {"path": ["petId", "order_id", "slug", "itemKey"], "query": ["limit", "pageSize", "sort-by", "q", "include_deleted", "since"],
                "header": ["X-Request-Id", "X-Trace", "If-Match", "x-api-version"], "cookie": ["session", "csrf_token"]}[loc]
        name = base[idx % len(base)]
        kinds = ["string", "integer"] if loc == "path" else ["string", "integer", "boolean", "array_string", "date", "enum_ref",
                                                             "number", "uuid", "datetime", "array_integer", "enum_inline", "array_enum_ref",
                                                             "array_enum_inline"]
        if loc == "path" and r.random() < 0.25:
            kinds = ["uuid", "enum_inline", "number"]
        if loc in ("header", "cookie"):
            kinds = ["string", "integer"]
        k = r.choice(kinds)
        if k in ("enum_ref", "array_enum_ref") and not self.enums():
            k = "string"
        required = True if loc == "path" else r.random() < 0.3
        if k == "string":
            sch: dict[str, Any] = {"type": "string"}
        elif k == "integer":
            sch = {"type": "integer"}
        elif k == "boolean":
            sch = {"type": "boolean"}
        elif k == "array_string":
            sch = {"type": "array", "items": {"type": "string"}}
        elif k == "date":
            sch = {"type": "string", "format": "date"}
        elif k == "number":
            sch = {"type": "number"}
        elif k == "uuid":
            sch = {"type": "string", "format": "uuid"}
        elif k == "datetime":
            sch = {"type": "string", "format": "date-time"}
        elif k == "array_integer":
            sch = {"type": "array", "items": {"type": "integer"}}
        elif k == "enum_inline":
            sch = {"type": "string", "enum": ["asc", "desc", "by-name"]}
        elif k == "array_enum_inline":      # items need a promoted enum class, named after the operation and the parameter
            sch = {"type": "array", "items": {"type": "string", "enum": ["new", "in-progress", "done"]}}
        elif k == "array_enum_ref":
            t = r.choice(self.enums())
            sch = {"type": "array", "items": ref(t)}
        else:
            t = r.choice(self.enums())
            sch = ref(t)
        if k in ("string", "integer", "boolean") and r.random() < 0.2:
            sch["default"] = {"string": "dflt", "integer": 3, "boolean": True}[k]
            self.features.add("param_with_default")
        p = {"name": name, "in": loc, "required": required, "schema": sch}
        if not required and loc != "path":
            if r.random() < 0.5:
                del p["required"]
        e = {"name": name, "in": loc, "required": required, "kind": k}
        if k == "enum_ref":
            e["target"] = sch["$ref"].split("/")[-1]
        if k == "array_enum_ref":
            e["target"] = sch["items"]["$ref"].split("/")[-1]
        self.features.add(f"param_{loc}")
        self.features.add(f"paramkind_{k}")
        return p, e

    def body_schema(self) -> tuple[dict, dict]:
        r = self.rng
        objs = self.objects()
        k = r.random()
        if objs and k < 0.7:
            t = r.choice(objs)
            return ref(t), {"kind": "ref", "target": t}
        if objs and k < 0.85:
            t = r.choice(objs)
            return {"type": "array", "items": ref(t)}, {"kind": "array", "items": {"kind": "ref", "target": t}}
        node, e = self.prim(allow_fmt=False)
        return node, e

    def response_schema(self) -> tuple[dict, dict]:
        r = self.rng
        objs = self.objects()
        aliases = [n for n, e in self.sexp.items() if e["kind"] == "array_alias"]
        k = r.random()
        if aliases and k < 0.1:
            t = r.choice(aliases)
            return ref(t), {"kind": "ref_alias", "target": t}
        if objs and k < 0.6:
            t = r.choice(objs)
            if r.random() < self.prof.get("p_nullable_response", 0.0):
                # "the object or null": the OpenAPI 3.0 spelling of a nullable reference
                self.features.add("nullable_response")
                return {"allOf": [ref(t)], "nullable": True}, {"kind": "ref", "target": t, "nullable": True}
            return ref(t), {"kind": "ref", "target": t}
        if objs and k < 0.8:
            t = r.choice(objs)
            return {"type": "array", "items": ref(t)}, {"kind": "array", "items": {"kind": "ref", "target": t}}
        if k < 0.9:
            node, e = self.prim(allow_fmt=False)
            return node, e
        node, e = self.prim(allow_fmt=False)
        return {"type": "array", "items": node}, {"kind": "array", "items": e}

    def add_op(self) -> None:
        r = self.rng
        self.opn += 1
        n = self.opn
        seg = f"op{n}"
        method = r.choice(self.prof.get("methods", METHODS))
        path = f"/{seg}/res"
        params, pexp = [], []
        npath = r.choice([0, 0, 1, 1, 2])
        for i in range(npath):
            p, e = self.param("path", i + n)
            if any(x["name"] == p["name"] for x in params):
                continue
            params.append(p)
            pexp.append(e)
            path += "/{" + p["name"] + "}"
            if i == 0 and r.random() < 0.3:
                path += "/sub"
        if r.random() < 0.12:
            path += "/"          # a trailing slash is part of the template: /reports/ and /reports are different resources
            self.features.add("path_trailing_slash")
        for loc in ("query", "header"):
            if r.random() < self.prof["p_param"]:
                for i in range(r.randint(1, 3)):
                    p, e = self.param(loc, i + n)
                    if any(x["name"] == p["name"] and x["in"] == loc for x in params):
                        continue
                    params.append(p)
                    pexp.append(e)
        if "cookie_param" in self.allow and r.random() < 0.7:
            p, e = self.param("cookie", n)
            params.append(p)
            pexp.append(e)
            self.features.add("cookie_param")
        op: dict[str, Any] = {}
        shape = r.choice(["camel", "snake", "absent", "fastapi"]) if "opid_shapes" in self.prof else r.choice(["camel", "snake"])
        if "opid_shapes" in self.prof and r.random() < 0.08:
            shape = "keyword"
        verbs = {"get": "get", "post": "create", "put": "replace", "patch": "update", "delete": "remove", "options": "describe", "trace": "echo"}
        noun = r.choice(["Thing", "Item", "Record", "Entry"]) + str(n)
        if shape == "camel":
            op["operationId"] = f"{verbs[method]}{noun}"
        elif shape == "snake":
            op["operationId"] = f"{verbs[method]}_{noun.lower()}"
        elif shape == "keyword":
            # a one-word operationId that is (or lower-cases to) a Python keyword / constant
            pool = [k for k in ["Import", "Return", "Continue", "Pass", "Class", "from", "IN", "None", "True", "async", "Match"]
                    if k.lower() not in {str(o.get("operationId")).lower() for o in self.ops}]
            if pool:
                op["operationId"] = r.choice(pool)      # (each keyword at most once per document: no collisions here)
                self.features.add("opid_keyword")
            else:
                op["operationId"] = f"{verbs[method]}{noun}"
        elif shape == "fastapi":
            op["operationId"] = f"{verbs[method]}_{noun.lower()}_{seg}_res_{method}"
            self.features.add("opid_fastapi")
        else:
            self.features.add("opid_absent")
        if "operationId" in op and self.ops and r.random() < self.prof.get("p_dup_opid", 0.0):
            prev = r.choice(self.ops).get("operationId")
            if prev:
                variant = r.choice(["same", "recase", "suffix2"])
                if variant == "same":
                    op["operationId"] = prev
                elif variant == "recase":
                    import re as _re
                    op["operationId"] = (_re.sub(r"([a-z0-9])([A-Z])", r"\1_\2", prev).lower() if prev != prev.lower()
                                         else "".join(w.title() if i else w for i, w in enumerate(prev.split("_"))))
                else:
                    op["operationId"] = prev + "_2"
                self.features.add("opid_collision")
        tags_mode = r.random()
        tags: list[str] = []
        if self.prof.get("single_tag"):
            tags = [TAGS[0]]
        elif tags_mode < 0.08 and self.sexp:
            # a tag spelled like one of the document's schemas (resource-named tags: tag `pet`, schema `Pet`): the tag's
            # endpoint module and the model's module then share a file name (endpoints/pet.py, models/pet.py)
            nm = r.choice(sorted(self.sexp))
            tags = [r.choice([nm, nm.lower(), nm[0].lower() + nm[1:]])]
            self.features.add("tag_named_like_a_schema")
        elif tags_mode < 0.7:
            tags = [r.choice(TAGS[: self.prof.get("ntags", 4)])]
        elif tags_mode < 0.8 and "multi_tag" in self.allow:
            tags = r.sample(TAGS[:4], 2)
            self.features.add("multi_tag")
        if tags:
            op["tags"] = tags
        else:
            self.features.add("untagged")
        if r.random() < 0.6:
            op["summary"] = f"{verbs[method].title()} {noun}"
        # path-level parameters: hoist some
        path_level = []
        if params and r.random() < 0.25:
            hoist = [p for p in params if r.random() < 0.5]
            for p in hoist:
                params.remove(p)
                path_level.append(p)
                for e in pexp:
                    if e["name"] == p["name"] and e["in"] == p["in"]:
                        e["path_level"] = True
            if path_level:
                self.features.add("path_level_params")
        if params:
            op["parameters"] = params
        body_exp = None
        if method in ("post", "put", "patch") and r.random() < self.prof["p_body"]:
            kind = r.choice(self.prof.get("body_kinds", ["json", "json", "json", "form", "multipart", "octet"]))
            breq = r.random() < 0.7
            if kind == "json":
                sch, e = self.body_schema()
                op["requestBody"] = {"required": breq, "content": {"application/json": {"schema": sch}}}
                body_exp = {"media": "application/json", "schema": e, "required": breq}
            elif kind == "form":
                op["requestBody"] = {"required": breq, "content": {"application/x-www-form-urlencoded": {
                    "schema": {"type": "object", "properties": {"a": {"type": "string"}, "b": {"type": "integer"}}}}}}
                body_exp = {"media": "application/x-www-form-urlencoded", "required": breq}
            elif kind == "multipart":
                op["requestBody"] = {"required": breq, "content": {"multipart/form-data": {
                    "schema": {"type": "object", "properties": {"file": {"type": "string", "format": "binary"}}}}}}
                body_exp = {"media": "multipart/form-data", "required": breq}
            else:
                # bodies the caller passes as raw bytes: binary, and JSON-flavoured media types the generator does not serialise
                media = r.choice(["application/octet-stream", "application/octet-stream", "application/pdf", "text/csv",
                                  "application/vnd.api+json", "application/json; charset=utf-8"])
                sch = {"type": "string", "format": "binary"} if "json" not in media else {"type": "object"}
                op["requestBody"] = {"required": breq, "content": {media: {"schema": sch}}}
                if "json" not in media and r.random() < 0.3:
                    # a media type object without a schema: legal, and what OpenAPI 3.1 recommends for binary uploads
                    op["requestBody"]["content"][media] = {}
                    self.features.add("request_media_without_schema")
                body_exp = {"media": media, "required": breq}
                self.features.add("raw_body_media_" + media.split("/")[1].split(";")[0].replace("+", "_").replace(".", "_").replace("-", "_"))
            if kind == "json" and r.random() < self.prof.get("p_multi_media", 0.0):
                extra = r.choice(["multipart/form-data", "application/x-www-form-urlencoded"])
                op["requestBody"]["content"][extra] = {"schema": {"type": "object", "properties": {
                    "file": {"type": "string", "format": "binary"}, "note": {"type": "string"}}}}
                body_exp["also"] = extra
                self.features.add("multi_request_media")
            self.features.add(f"body_{kind}")
            if not breq:
                self.features.add("body_optional")
        # responses
        responses: dict[str, Any] = {}
        rexp: dict[str, Any] = {}
        primary = r.choice(["200", "200", "201", "204", "202"])
        if r.random() < self.prof.get("p_range_2xx", 0.0):
            primary = "2XX"      # the success response declared as a range: any status 200-299
            self.features.add("range_2xx")
        if primary == "204" or (primary == "2XX" and r.random() < 0.3):
            responses[primary] = {"description": "no content"}
            rexp[primary] = {"content": None}
            self.features.add("resp_204")
        elif r.random() < self.prof.get("p_stream", 0.0):
            kind = r.choice(self.prof.get("stream_kinds", ["sse", "binary"]))
            if kind == "sse":
                objs = self.objects()
                if objs and r.random() < 0.6:
                    t = r.choice(objs)
                    sch, e = ref(t), {"kind": "ref", "target": t}
                else:
                    sch, e = {"type": "string"}, {"kind": "string", "format": None}
                responses[primary] = {"description": "events", "content": {"text/event-stream": {"schema": sch}}}
                rexp[primary] = {"content": "sse", "schema": e}
            elif kind == "binary":
                responses[primary] = {"description": "bytes", "content": {"application/octet-stream": {
                    "schema": {"type": "string", "format": "binary"}}}}
                rexp[primary] = {"content": "binary"}
            elif kind == "ndjson":
                objs = self.objects()
                t = r.choice(objs) if objs else None
                sch = ref(t) if t else {"type": "object"}
                responses[primary] = {"description": "records", "content": {"application/x-ndjson": {"schema": sch}}}
                rexp[primary] = {"content": "ndjson", "schema": {"kind": "ref", "target": t} if t else {"kind": "object"}}
            else:
                responses[primary] = {"description": "text", "content": {"text/plain": {"schema": {"type": "string"}}}}
                rexp[primary] = {"content": "text"}
            self.features.add(f"stream_{kind}")
        else:
            sch, e = self.response_schema()
            jm = "application/json"
            if self.prof.get("json_media_variants") and r.random() < 0.3:
                jm = r.choice(["application/vnd.api+json", "application/json; charset=utf-8", "application/problem+json", "application/hal+json"])
                self.features.add("json_media_variant")
            responses[primary] = {"description": "ok", "content": {jm: {"schema": sch}}}
            rexp[primary] = {"content": "json", "schema": e}
            if r.random() < self.prof.get("p_multi_response_media", 0.0):
                # several content types on ONE response: the server picks one per reply (Content-Type header)
                objs2 = [o for o in self.objects() if o != e.get("target")]
                if objs2 and r.random() < 0.5:
                    t2 = r.choice(objs2)
                    responses[primary]["content"]["application/vnd.alt+json"] = {"schema": ref(t2)}
                    rexp[primary]["alt"] = [{"media": "application/vnd.alt+json", "content": "json", "schema": {"kind": "ref", "target": t2}}]
                else:
                    responses[primary]["content"]["text/plain"] = {"schema": {"type": "string"}}
                    rexp[primary]["alt"] = [{"media": "text/plain", "content": "text"}]
                self.features.add("multi_response_media")
        is_stream = rexp.get(primary, {}).get("content") in ("sse", "binary", "ndjson")
        if is_stream and "stream_with_secondary_2xx" in self.allow:
            self.features.add("stream_with_secondary_2xx")
        # (an inline schema repeated under two statuses is two anonymous schemas, hence two classes: that belongs to the
        # trigger class 'multi_2xx_different_schema'; a nullable-reference response therefore stays the only 2xx)
        inline_nullable = bool((rexp.get(primary, {}).get("schema") or {}).get("nullable"))
        if r.random() < self.prof["p_multi2xx"] and (not is_stream or "stream_with_secondary_2xx" in self.allow) and not inline_nullable and primary != "2XX":
            second = r.choice([c for c in ["200", "201", "202", "204"] if c != primary])
            if second == "204":
                responses[second] = {"description": "nothing"}
                rexp[second] = {"content": None}
            elif "multi_2xx_different_schema" in self.allow or rexp[primary].get("content") is None:
                sch, e = self.response_schema()
                responses[second] = {"description": "also ok", "content": {"application/json": {"schema": sch}}}
                rexp[second] = {"content": "json", "schema": e}
                if rexp[primary].get("content") is not None:
                    self.features.add("multi_2xx_different_schema")
            elif rexp[primary].get("content") != "json":
                responses[second] = {"description": "nothing"}
                rexp[second] = {"content": None}
            else:
                # clean grammar: a second success response with content shares the primary's schema (the method has one
                # return annotation); differing schemas are the trigger class 'multi_2xx_different_schema'
                responses[second] = {"description": "also ok", "content": copy.deepcopy(responses[primary]["content"])}
                rexp[second] = copy.deepcopy(rexp[primary])
            self.features.add("multi_2xx")
        if r.random() < self.prof["p_errors"]:
            for code in r.sample(["400", "401", "403", "404", "409", "422", "429", "500", "502", "503",
                                  "402", "418", "420", "451", "499", "507", "529", "599"], r.randint(1, 3)):
                # in half of the documents all error responses are the same object (so that, moved into
                # components.responses, ONE component is referenced under several status codes)
                self._uniform_err = getattr(self, "_uniform_err", None) if getattr(self, "_uniform_err", None) is not None else (r.random() < 0.5)
                responses[code] = {"description": "error" if self._uniform_err else f"error {code}"}
                rexp[code] = {"error": True}
                if r.random() < self.prof.get("p_error_stream", 0.0):
                    # a non-primary response with a streaming media type: the operation itself does not stream
                    responses[code]["content"] = r.choice([
                        {"application/octet-stream": {"schema": {"type": "string", "format": "binary"}}},
                        {"text/event-stream": {"schema": {"type": "string"}}}])
                    self.features.add("streaming_error_response")
            self.features.add("declared_errors")
        if r.random() < 0.15 or (self.prof.get("p_default_content", 0.0) and r.random() < 0.5):
            responses["default"] = {"description": "unexpected"}
            rexp["default"] = {"error": True}
            self.features.add("default_response")
            if r.random() < self.prof.get("p_default_content", 0.0) and "content" in responses.get(primary, {}):
                responses["default"]["content"] = copy.deepcopy(responses[primary]["content"])
                rexp["default"]["content"] = True
                self.features.add("default_with_content")
            elif r.random() < self.prof.get("p_default_content_nobody", 0.0) and not any(
                    "content" in v for c, v in responses.items() if str(c).startswith("2")):
                # an error-shaped default body next to a body-less success response (clean: the call must still raise)
                responses["default"]["content"] = {"application/json": {"schema": {"type": "object", "properties": {"message": {"type": "string"}}}}}
                rexp["default"]["content"] = True
                self.features.add("default_with_content_bodyless_success")
        if r.random() < self.prof.get("p_3xx", 0.1):
            responses["302"] = {"description": "moved"}
            rexp["302"] = {"error": True}
            self.features.add("declares_3xx")
        op["responses"] = responses
        item = self.paths.setdefault(path, {})
        item[method] = op
        if path_level:
            item["parameters"] = path_level
        elif pexp and r.random() < 0.1:
            # operation-level parameter overriding a path-level declaration of the same name and location
            pp = [p for p in op.get("parameters", []) if p["in"] == "path"]
            if pp:
                item["parameters"] = [dict(pp[0], schema={"type": "string"}, description="path-level declaration")]
                self.features.add("path_param_overridden")
        self.ops.append({"seg": seg, "path": path, "method": method.upper(), "tags": tags or ["default"],
                         "operationId": op.get("operationId"), "params": pexp, "body": body_exp, "responses": rexp})

    def build(self) -> "Doc":
        self.build_schemas()
        lo, hi = self.prof["ops"]
        nops = 0 if self.rng.random() < self.prof.get("p_no_ops", 0.03) else self.rng.randint(lo, hi)
        if nops == 0:
            self.features.add("no_operations")
        for _ in range(nops):
            self.add_op()
        doc = {"openapi": "3.0.3", "info": {"title": "Generated API", "version": "1.0.0"},
               "paths": self.paths, "components": {"schemas": self.schemas}}
        if self.rng.random() < 0.3:
            doc["info"]["description"] = "An API produced by the verification grammar."
        if self.rng.random() < 0.3:
            doc["servers"] = [{"url": "https://api.example.test/v1"}]
        return Doc(doc, self.sexp, self.ops, self.features)


class Doc:
    def __init__(self, doc: dict, sexp: dict, ops: list[dict], features: set[str]) -> None:
        self.doc, self.sexp, self.ops, self.features = doc, sexp, ops, set(features)

    def descriptor(self) -> dict:
        return {"doc": self.doc}

    def nontrivial(self) -> bool:
        refs = json.dumps(self.doc.get("components", {})).count("$ref")
        return len(self.ops) >= 1 and len(self.sexp) >= 2 and refs >= 1

    def to_json(self) -> dict:
        return {"doc": self.doc, "sexp": self.sexp, "ops": self.ops, "features": sorted(self.features)}

    @staticmethod
    def from_json(d: dict) -> "Doc":
        return Doc(d["doc"], d["sexp"], d["ops"], set(d["features"]))


def status_int(code: str, rng=None) -> int:
    """A concrete status for a declared response key ('2XX' stands for any 200-299)."""
    if str(code).upper() == "2XX":
        return rng.choice([200, 201, 204, 226, 299]) if rng is not None else 200
    return int(code)


def componentise(rng, d: Doc, p: float = 0.5) -> Doc:
    """Move some inline parameters, responses and request bodies into components.parameters / .responses / .requestBodies
    and refer to them with $ref.  Identical objects share one component, so one component response ends up referenced
    under several status codes and from several operations.  Meaning - and therefore the expectation model - is unchanged."""
    import json as _json

    comps = d.doc.setdefault("components", {})
    pool: dict[str, dict[str, str]] = {"parameters": {}, "responses": {}, "requestBodies": {}}

    def share(kind: str, obj: dict, prefix: str) -> dict:
        key = _json.dumps(obj, sort_keys=True)
        name = pool[kind].get(key)
        if name is None:
            name = f"{prefix}{len(pool[kind]) + 1}"
            pool[kind][key] = name
            comps.setdefault(kind, {})[name] = obj
        return {"$ref": f"#/components/{kind}/{name}"}

    used = False
    for item in d.doc.get("paths", {}).values():
        for holder in [item] + [op for op in item.values() if isinstance(op, dict) and "responses" in op]:
            params = holder.get("parameters")
            if isinstance(params, list):
                for i, prm in enumerate(params):
                    if "$ref" not in prm and rng.random() < p:
                        params[i] = share("parameters", prm, "SharedParam")
                        used = True
        for op in item.values():
            if not (isinstance(op, dict) and "responses" in op):
                continue
            for code, resp in list(op["responses"].items()):
                if "$ref" not in resp and rng.random() < p:
                    op["responses"][code] = share("responses", resp, "SharedResponse")
                    used = True
            rb = op.get("requestBody")
            if isinstance(rb, dict) and "$ref" not in rb and rng.random() < p:
                op["requestBody"] = share("requestBodies", rb, "SharedBody")
                used = True
    # one component parameter whose schema needs a generated class (array of an inline enum), referenced by several
    # operations: whatever is derived from it must not depend on which operation the loader meets first
    ops_nodes = [(pth, m, op) for pth, item in d.doc.get("paths", {}).items() for m, op in item.items()
                 if isinstance(op, dict) and "responses" in op]
    if len(ops_nodes) >= 2 and rng.random() < 0.6:
        comps.setdefault("parameters", {})["SharedStatusFilter"] = {
            "name": "statusFilter", "in": "query", "required": False,
            "schema": {"type": "array", "items": {"type": "string", "enum": ["new", "in-progress", "done"]}}}
        for pth, m, op in rng.sample(ops_nodes, rng.randint(2, min(3, len(ops_nodes)))):
            if any(isinstance(x, dict) and x.get("name") == "statusFilter" for x in op.get("parameters", [])):
                continue
            op.setdefault("parameters", []).append({"$ref": "#/components/parameters/SharedStatusFilter"})
            for e in d.ops:
                if e["path"] == pth and e["method"] == m.upper():
                    e["params"].append({"name": "statusFilter", "in": "query", "required": False, "kind": "array_enum_inline"})
        d.features.add("shared_component_parameter")
        used = True
    if used:
        d.features.add("component_refs")
    return d


def annotate(rng, d: Doc, p: float = 0.25) -> Doc:
    """Sprinkle keywords that carry NO structural meaning over operations, parameters, schemas and properties: deprecated,
    externalDocs, x- extensions, examples, title, readOnly / writeOnly, validation limits. Meaning and expectation model are
    unchanged; a generator that reacts to one of them (a decorator, an import, a dropped field) becomes observable."""
    used = set()

    def mark(node: dict, kind: str) -> None:
        if not isinstance(node, dict) or "$ref" in node:
            return
        r = rng.random
        if r() < p:
            node["deprecated"] = True
            used.add(f"{kind}_deprecated")
        if r() < p / 2:
            node["x-internal-note"] = {"owner": "team-a", "tier": 2}
            used.add(f"{kind}_x_extension")
        if kind == "operation":
            if r() < p / 2:
                node["externalDocs"] = {"url": "https://docs.test/x", "description": "more"}
            if r() < p / 3:
                node["security"] = [{"apiKeyAuth": []}]
            if r() < p / 3:
                node["servers"] = [{"url": "https://alt.test/v2"}]
        elif kind in ("schema", "property"):
            t = node.get("type")
            if r() < p / 2:
                node["title"] = "A Title"
            if kind == "property" and r() < p / 3 and "readOnly" not in node:
                node[rng.choice(["readOnly", "writeOnly"])] = True
                used.add("property_read_or_write_only")
            if t == "string" and "enum" not in node and "format" not in node and r() < p:
                node.update(rng.choice([{"minLength": 1}, {"maxLength": 4000}, {"pattern": "^.*$"}]))
                used.add("validation_keywords")
            if t in ("integer", "number") and "enum" not in node and r() < p:
                node.update(rng.choice([{"minimum": -10 ** 9}, {"maximum": 10 ** 9}, {"multipleOf": 1} if t == "integer" else {"exclusiveMinimum": False}]))
                used.add("validation_keywords")
            if t == "array" and r() < p:
                node.update(rng.choice([{"minItems": 0}, {"maxItems": 10000}, {"uniqueItems": False}]))
                used.add("validation_keywords")

    for item in d.doc.get("paths", {}).values():
        for k, v in item.items():
            if k == "parameters":
                for prm in v:
                    mark(prm, "parameter")
            elif isinstance(v, dict) and "responses" in v:
                mark(v, "operation")
                for prm in v.get("parameters", []):
                    mark(prm, "parameter")
    for sch in d.doc.get("components", {}).get("schemas", {}).values():
        if isinstance(sch, dict):
            mark(sch, "schema")
            for part in [sch] + [m for m in sch.get("allOf", []) if isinstance(m, dict)]:
                for prop in (part.get("properties") or {}).values():
                    mark(prop, "property")
    if any(v.get("security") for item in d.doc.get("paths", {}).values() for v in item.values() if isinstance(v, dict)):
        d.doc.setdefault("components", {}).setdefault("securitySchemes", {})["apiKeyAuth"] = {"type": "apiKey", "in": "header", "name": "X-Key"}
    d.features |= {f"annot_{u}" for u in used}
    return d


def add_exotic_media_operations(rng, d: Doc) -> Doc:
    """Operations whose success response uses a media type generators rarely meet: YAML bodies, multipart/mixed streams,
    JSON text sequences, XML. Not part of d.ops (no call plan, no expectation): for the checks that judge what is EMITTED -
    imports, surfaces, compilation."""
    objs = [n for n, e in d.sexp.items() if e.get("kind") == "object"]
    sch = ref(rng.choice(objs)) if objs else {"type": "object", "properties": {"k": {"type": "string"}}}
    medias = rng.sample(["application/yaml", "text/yaml", "application/x-yaml", "multipart/mixed", "application/json-seq", "application/xml",
                         "text/csv", "application/vnd.acme.v2+yaml"], rng.randint(2, 4))
    tags = sorted({t for o in d.ops for t in o.get("tags", [])} - {"default"})
    for k, m in enumerate(medias):
        op = {"operationId": f"getExotic{k}", "responses": {"200": {"description": "ok", "content": {m: {"schema": sch}}}}}
        if tags and rng.random() < 0.7:
            op["tags"] = [rng.choice(tags)]
        d.doc["paths"][f"/opx{k}/exotic"] = {"get": op}
    d.features.add("exotic_response_media")
    return d


def generate(rng, allow: set[str] | None = None, prof: dict | None = None) -> Doc:
    d = Gen(rng, allow, prof).build()
    if prof and rng.random() < prof.get("p_component_refs", 0.0):
        componentise(rng, d)
    if rng.random() < (prof or {}).get("p_annotations", 0.4):
        annotate(rng, d)
    return d


LAYOUTS = [
    # (output_package, core_package or None)
    ("client1", None), ("acme.client1", None), ("acme.apis.client1", None),
    ("client1", "client1.core"), ("acme.client1", "acme.core"), ("acme.apis.client1", "acme.shared.core"),
    ("client1", "sharedcore"), ("acme.client1", "acme.client1.core"), ("acme.apis.client1", "corepkg.rt.core"),
]
