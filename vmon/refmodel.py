"""Reference models (independent of the repository): tolerant JSON equality, expected request, expected wire values."""
from __future__ import annotations

import datetime as dt
from typing import Any
from urllib.parse import parse_qs, unquote


def _as_dt(s: str):
    try:
        return dt.datetime.fromisoformat(s.replace("Z", "+00:00"))
    except Exception:
        return None


def jdiff(expected: Any, got: Any, path: str = "$", optional_keys: set | None = None) -> str | None:
    """None when `got` equals `expected` under the tolerances the properties state:
       * 1 == 1.0 but bool != number;
       * date-times compare by instant/offset, not spelling (Z vs +00:00);
       * `got` may carry extra keys only if their value is null, [] or {} (an absent optional property may reappear
         as null or as an empty container)."""
    if isinstance(expected, bool) or isinstance(got, bool):
        return None if (isinstance(expected, bool) and isinstance(got, bool) and expected == got) else f"{path}: {expected!r} != {got!r}"
    if isinstance(expected, (int, float)) and isinstance(got, (int, float)):
        return None if float(expected) == float(got) else f"{path}: {expected!r} != {got!r}"
    if isinstance(expected, str) and isinstance(got, str):
        if expected == got:
            return None
        a, b = _as_dt(expected), _as_dt(got)
        if a is not None and b is not None and len(expected) >= 16:
            try:
                if a == b and a.utcoffset() == b.utcoffset():
                    return None
            except TypeError:
                pass
        return f"{path}: {expected!r} != {got!r}"
    if expected is None and got is None:
        return None
    if isinstance(expected, list) and isinstance(got, list):
        if len(expected) != len(got):
            return f"{path}: list length {len(expected)} != {len(got)}"
        for i, (a, b) in enumerate(zip(expected, got)):
            d = jdiff(a, b, f"{path}[{i}]", optional_keys)
            if d:
                return d
        return None
    if isinstance(expected, dict) and isinstance(got, dict):
        for k, v in expected.items():
            if k not in got:
                if v is None and (optional_keys is None or k in optional_keys):
                    continue  # explicit null in the input may be dropped (absent == null for optional PROPERTIES)
                return f"{path}: key {k!r} lost" + (" (null map entry)" if v is None else "")
            d = jdiff(v, got[k], f"{path}.{k}", optional_keys)
            if d:
                return d
        for k, v in got.items():
            if k not in expected and v not in (None, [], {}):
                return f"{path}: unexpected key {k!r} = {v!r}"
        return None
    return f"{path}: {type(expected).__name__} {expected!r} != {type(got).__name__} {got!r}"


def wire_scalar(v: Any) -> str:
    if isinstance(v, bool):
        return "true" if v else "false"
    return str(v)


def expected_query(supplied: list[dict]) -> list[tuple[str, str]]:
    out = []
    for a in supplied:
        if a["in"] != "query":
            continue
        v = a["value"]
        if isinstance(v, list):
            out += [(a["name"], wire_scalar(x)) for x in v]
        else:
            out.append((a["name"], wire_scalar(v)))
    return out


def expected_path(template: str, supplied: list[dict]) -> str:
    p = template
    for a in supplied:
        if a["in"] == "path":
            p = p.replace("{" + a["name"] + "}", str(a["value"]))
    return p
