"""Code-reach monitor: which lines of the repository's code did this run actually execute?

sys.monitoring LINE events under the COVERAGE tool id; every location is disabled after its first hit, so the cost is one
callback per distinct line.  Used in two places: in the check workers (the generator runs in-process there) and in the
fresh-interpreter probe (the runtime files copied into emitted clients run there; a file `<anything>/core/x.py` that is a
byte-identical copy of the shipped `core/x.py` is reported under the shipped name).

The result is evidence ("what did the workload reach"), never a verdict.
"""
from __future__ import annotations

import sys
from pathlib import Path
from types import CodeType

TOOL = sys.monitoring.COVERAGE_ID if hasattr(sys, "monitoring") else None
_hits: dict[str, set[int]] = {}
_prefixes: tuple[str, ...] = ()
_active = False


def start(prefixes: list[str]) -> bool:
    """Record first execution of every line of files whose path starts with one of `prefixes`."""
    global _prefixes, _active
    if TOOL is None or _active:
        return False
    mon = sys.monitoring
    try:
        mon.use_tool_id(TOOL, "vmon-reach")
    except ValueError:
        return False
    _prefixes = tuple(prefixes)

    def on_line(code: CodeType, line: int):
        fn = code.co_filename
        if fn.startswith(_prefixes):
            _hits.setdefault(fn, set()).add(line)
        return mon.DISABLE

    mon.register_callback(TOOL, mon.events.LINE, on_line)
    mon.set_events(TOOL, mon.events.LINE)
    _active = True
    return True


def stop() -> dict[str, list[int]]:
    global _active
    if _active:
        sys.monitoring.set_events(TOOL, 0)
        sys.monitoring.register_callback(TOOL, sys.monitoring.events.LINE, None)
        sys.monitoring.free_tool_id(TOOL)
        _active = False
    return {f: sorted(v) for f, v in _hits.items()}


def executable_lines(path: Path) -> set[int]:
    """Line numbers that carry code, from the compiled code objects (docstring-only and blank lines excluded)."""
    try:
        top = compile(path.read_text(), str(path), "exec")
    except (SyntaxError, OSError, UnicodeDecodeError):
        return set()
    out: set[int] = set()
    todo = [top]
    while todo:
        co = todo.pop()
        for _, _, ln in co.co_lines():
            if ln is not None:
                out.add(ln)
        todo.extend(c for c in co.co_consts if isinstance(c, CodeType))
    return out


def function_spans(path: Path) -> list[tuple[str, int, int]]:
    import ast

    try:
        tree = ast.parse(path.read_text())
    except (SyntaxError, OSError, UnicodeDecodeError):
        return []
    spans = []

    def walk(node, prefix=""):
        for ch in ast.iter_child_nodes(node):
            if isinstance(ch, (ast.FunctionDef, ast.AsyncFunctionDef)):
                body_start = ch.body[0].lineno if ch.body else ch.lineno
                spans.append((prefix + ch.name, body_start, ch.end_lineno or ch.lineno))
                walk(ch, prefix + ch.name + ".")
            elif isinstance(ch, ast.ClassDef):
                walk(ch, prefix + ch.name + ".")
            else:
                walk(ch, prefix)
    walk(tree)
    return spans


def summarise(hits_by_rel: dict[str, set[int]], src_root: Path) -> dict:
    """hits_by_rel: path relative to src_root (e.g. 'pyopenapi_gen/core/utils.py') -> lines.  Returns totals per
    sub-package and the functions that were never entered."""
    per_pkg: dict[str, list[int]] = {}
    total_r = total_t = 0
    never: list[str] = []
    entered = 0
    files = 0
    for p in sorted(src_root.rglob("*.py")):
        if "__pycache__" in p.parts:
            continue
        rel = str(p.relative_to(src_root))
        ex = executable_lines(p)
        if not ex:
            continue
        files += 1
        hit = hits_by_rel.get(rel, set()) & ex
        parts = rel.split("/")
        key = "/".join(parts[1:3]) if len(parts) > 3 else "/".join(parts[1:2]) or rel
        key = key[:-3] if key.endswith(".py") else key
        a = per_pkg.setdefault(key, [0, 0])
        a[0] += len(hit)
        a[1] += len(ex)
        total_r += len(hit)
        total_t += len(ex)
        for name, lo, hi in function_spans(p):
            body = {ln for ln in ex if lo <= ln <= hi}
            if not body:
                continue
            if body & hit:
                entered += 1
            else:
                never.append(f"{rel.replace('pyopenapi_gen/', '')}:{name}")
    return {"files": files, "lines_reached": total_r, "lines_executable": total_t,
            "by_subpackage": {k: {"reached": v[0], "executable": v[1]} for k, v in sorted(per_pkg.items()) if v[0]},
            "functions_entered": entered, "functions_never_entered": len(never), "functions_never_entered_sample": never[:40]}
