"""Run the real generator (warm process) and the probe (fresh interpreter) on what it emitted."""
from __future__ import annotations

import io
import json
import logging
import os
import subprocess
import warnings
from contextlib import redirect_stdout
from pathlib import Path
from typing import Any

from . import common

PROBE = str(Path(__file__).resolve().parent / "probe.py")


class GenResult:
    def __init__(self) -> None:
        self.ok = False
        self.error: str | None = None
        self.error_type: str | None = None
        self.files: list[str] = []
        self.warnings: list[str] = []
        self.root: Path | None = None
        self.package = ""
        self.core: str | None = None


_quiet_done = False


def quiet() -> None:
    global _quiet_done
    if not _quiet_done:
        logging.disable(logging.CRITICAL)
        _quiet_done = True


def write_spec(doc: dict, path: Path, rendering: str = "json") -> Path:
    if rendering == "json":
        path = path.with_suffix(".json")
        path.write_text(json.dumps(doc))
    else:
        import yaml

        path = path.with_suffix(".yaml")
        if rendering == "yaml_block":
            path.write_text(yaml.safe_dump(doc, sort_keys=False, default_flow_style=False, allow_unicode=True))
        elif rendering == "yaml_flow":
            path.write_text(yaml.safe_dump(doc, sort_keys=False, default_flow_style=True, allow_unicode=True, width=10 ** 6))
        elif rendering == "yaml_intkeys":
            text = yaml.safe_dump(doc, sort_keys=False, default_flow_style=False, allow_unicode=True)
            import re

            text = re.sub(r"^(\s+)'(\d{3})':", r"\1\2:", text, flags=re.M)
            path.write_text(text)
        else:
            raise ValueError(rendering)
    return path


def generate(doc: dict, root: Path, package: str, core: str | None = None, force: bool = True,
             strategy: str = "operationId", rendering: str = "json", spec_path: Path | None = None,
             no_postprocess: bool = True) -> GenResult:
    common.use_repo()
    quiet()
    from pyopenapi_gen import generate_client
    from pyopenapi_gen.ir import NamingStrategy

    res = GenResult()
    res.root, res.package, res.core = root, package, core
    root.mkdir(parents=True, exist_ok=True)
    if spec_path is None:
        spec_path = write_spec(doc, root.parent / f"spec-{root.name}", rendering)
    ns = {"operationId": NamingStrategy.OPERATION_ID, "clean": NamingStrategy.CLEAN, "path": NamingStrategy.PATH}[strategy]
    buf = io.StringIO()
    with warnings.catch_warnings(record=True) as w:
        warnings.simplefilter("always")
        try:
            with redirect_stdout(buf):
                files = generate_client(str(spec_path), str(root), package, core_package=core, force=force,
                                        no_postprocess=no_postprocess, verbose=False, naming_strategy=ns)
            res.ok = True
            res.files = [str(f) for f in files]
        except Exception as e:  # a generation that raises is 'rejected', not a violation by itself
            res.error = f"{type(e).__name__}: {e}"[:600]
            res.error_type = type(e).__name__
    res.warnings = [str(x.message)[:300] for x in w]
    res.stdout = buf.getvalue()[-2000:]
    return res


REACH: dict[str, set[int]] = {}      # shipped runtime file (relative to src/) -> lines executed inside emitted clients
_CORE_BYTES: dict[str, bytes] = {}


def _absorb_reach(job: dict, reach: dict) -> None:
    """Lines executed in `<core package>/x.py` count for the shipped core/x.py when the copy is byte-identical."""
    src_core = common.REPO_SRC / "pyopenapi_gen" / "core"
    for p in job.get("packages", []):
        core_dir = Path(job["root"]).joinpath(*(p.get("core") or p["pkg"] + ".core").split("."))
        for f, lines in reach.items():
            fp = Path(f)
            try:
                rel = fp.relative_to(core_dir)
            except ValueError:
                continue
            shipped = src_core / rel
            key = str(rel)
            try:
                if key not in _CORE_BYTES:
                    _CORE_BYTES[key] = shipped.read_bytes()
                if fp.read_bytes() != _CORE_BYTES[key]:
                    continue
            except OSError:
                continue
            REACH.setdefault(f"pyopenapi_gen/core/{rel}", set()).update(lines)


def run_probe(job: dict, workdir: Path, timeout: float = 300.0) -> dict:
    """Run probe.py under a fresh `python -I` (no PYTHONPATH, no user site); returns its JSON or {'probe_error':..}."""
    workdir.mkdir(parents=True, exist_ok=True)
    jp = workdir / "job.json"
    op = workdir / "out.json"
    if os.environ.get("VERIF_REACH", "1") != "0":
        job = dict(job, reach=True)
    jp.write_text(json.dumps(job))
    if op.exists():
        op.unlink()
    env = {k: v for k, v in os.environ.items() if not k.startswith("PYTHON")}
    env["PYTHONHASHSEED"] = os.environ.get("PYTHONHASHSEED", "0")
    env["PYTHONDONTWRITEBYTECODE"] = "1"
    try:
        r = subprocess.run([common.PY, "-I", PROBE, str(jp), str(op)], capture_output=True, text=True, timeout=timeout, env=env)
    except subprocess.TimeoutExpired:
        return {"probe_error": "timeout"}
    if not op.exists():
        return {"probe_error": f"exit {r.returncode}: {r.stderr[-1500:]}"}
    try:
        res = json.loads(op.read_text())
    except Exception as e:
        return {"probe_error": f"bad json: {e}"}
    if isinstance(res, dict) and "reach" in res:
        _absorb_reach(job, res.pop("reach"))
    return res
