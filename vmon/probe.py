"""SELF-CONTAINED probe (stdlib + httpx + cattrs only), run as `python -I probe.py job.json out.json` in a fresh
interpreter against emitted packages.  It blocks the generator (`pyopenapi_gen`) on the meta path, records which
top-level modules the emitted files import (audit hook), imports every module, resolves every __all__, introspects
models / clients / protocols / mocks, drives operations over a recording httpx.MockTransport and round-trips models.

job = {"root": <project root>, "packages": [{"pkg": "a.b.client", "core": "a.b.core"}], "actions": [...], ...}
"""
import asyncio
import base64
import dataclasses
import datetime as _dt
import enum
import importlib
import importlib.abc
import inspect
import json
import os
import sys
import traceback
import typing
import uuid as _uuid

# ----------------------------------------------------------------------------------------------- environment
BLOCKED = "pyopenapi_gen"
IMPORT_EVENTS = []  # (importer file, imported top-level)
PKG_DIRS = []


class _Blocker(importlib.abc.MetaPathFinder):
    def find_spec(self, fullname, path=None, target=None):
        if fullname == BLOCKED or fullname.startswith(BLOCKED + "."):
            raise ImportError(f"[vmon] generator package {fullname!r} is blocked in the probe interpreter")
        return None


def _audit(event, args):
    if event != "import":
        return
    name = args[0]
    f = sys._getframe(1)
    depth = 0
    while f is not None and depth < 40:
        fn = f.f_code.co_filename
        if not fn.startswith("<"):
            for d in PKG_DIRS:
                if fn.startswith(d):
                    IMPORT_EVENTS.append((fn, name))
            break
        f = f.f_back
        depth += 1


def setup(job):
    sys.meta_path.insert(0, _Blocker())
    for k in list(sys.modules):
        if k == BLOCKED or k.startswith(BLOCKED + "."):
            del sys.modules[k]
    root = job["root"]
    sys.path.insert(0, root)
    for p in job["packages"]:
        PKG_DIRS.append(os.path.join(root, *p["pkg"].split(".")) + os.sep)
        if p.get("core"):
            PKG_DIRS.append(os.path.join(root, *p["core"].split(".")) + os.sep)
    sys.addaudithook(_audit)
    if job.get("reach") and hasattr(sys, "monitoring"):
        _reach_start([os.path.join(root, *(p.get("core") or p["pkg"] + ".core").split(".")) + os.sep for p in job["packages"]])


_REACH = {}


def _reach_start(prefixes):
    """First execution of every line of the runtime files copied into the emitted core packages (evidence only)."""
    mon = sys.monitoring
    try:
        mon.use_tool_id(mon.COVERAGE_ID, "vmon-reach")
    except ValueError:
        return
    pre = tuple(prefixes)

    def on_line(code, line):
        fn = code.co_filename
        if fn.startswith(pre):
            _REACH.setdefault(fn, set()).add(line)
        return mon.DISABLE

    mon.register_callback(mon.COVERAGE_ID, mon.events.LINE, on_line)
    mon.set_events(mon.COVERAGE_ID, mon.events.LINE)


def exc_info(e):
    tb = traceback.extract_tb(e.__traceback__)
    inner = tb[-1] if tb else None
    return {"type": type(e).__name__, "msg": str(e)[:400],
            "where": f"{inner.filename}:{inner.lineno}" if inner else "",
            "line": (inner.line or "")[:200] if inner else ""}


# ----------------------------------------------------------------------------------------------- import-all
def module_names(root, dotted):
    base = os.path.join(root, *dotted.split("."))
    out = []
    for dp, dn, fn in os.walk(base):
        dn[:] = sorted(d for d in dn if d != "__pycache__")
        for f in sorted(fn):
            if not f.endswith(".py"):
                continue
            rel = os.path.relpath(os.path.join(dp, f), root)[:-3].split(os.sep)
            if rel[-1] == "__init__":
                rel = rel[:-1]
            out.append(".".join(rel))
    return sorted(set(out))


def import_all(job):
    res = {"modules": 0, "failures": [], "all_names": 0, "all_unresolved": []}
    seen = set()
    for p in job["packages"]:
        names = module_names(job["root"], p["pkg"])
        if p.get("core"):
            names += module_names(job["root"], p["core"])
        for m in names:
            if m in seen:
                continue
            seen.add(m)
            try:
                mod = importlib.import_module(m)
                res["modules"] += 1
            except BaseException as e:  # noqa
                info = exc_info(e)
                info["module"] = m
                res["failures"].append(info)
                continue
            allv = getattr(mod, "__all__", None)
            if allv is not None:
                for n in allv:
                    res["all_names"] += 1
                    if not hasattr(mod, n):
                        res["all_unresolved"].append({"module": m, "name": n})
    res["import_events"] = sorted({(os.path.relpath(f, job["root"]), n.split(".")[0]) for f, n in IMPORT_EVENTS})
    return res


# ----------------------------------------------------------------------------------------------- manifest
def tstr(t):
    try:
        return t if isinstance(t, str) else (getattr(t, "__name__", None) and t.__module__ == "builtins" and t.__name__) or str(t)
    except Exception:
        return repr(t)


def kind_of(t, depth=0):
    """Structural kind of a resolved annotation: str/int/float/bool/bytes/datetime/date/list[..]/dict[..]/ref:Name/enum:Name/union[..]/any"""
    if t is None or t is type(None):
        return "none"
    if t is typing.Any:
        return "any"
    origin = typing.get_origin(t)
    if origin is typing.Annotated:
        return kind_of(typing.get_args(t)[0], depth)
    if origin in (list, typing.List):
        a = typing.get_args(t)
        return "list[" + (kind_of(a[0], depth + 1) if a else "any") + "]"
    if origin in (dict, typing.Dict):
        a = typing.get_args(t)
        return "dict[" + (kind_of(a[1], depth + 1) if len(a) == 2 else "any") + "]"
    if origin is typing.Union or (hasattr(__import__("types"), "UnionType") and isinstance(t, __import__("types").UnionType)):
        args = [a for a in typing.get_args(t)]
        non_none = [a for a in args if a is not type(None)]
        inner = sorted(kind_of(a, depth + 1) for a in non_none)
        s = inner[0] if len(inner) == 1 else "union[" + ",".join(inner) + "]"
        return ("opt:" + s) if len(non_none) != len(args) else s
    if origin is typing.Literal:
        return "literal"
    if isinstance(t, type):
        if issubclass(t, enum.Enum):
            return "enum:" + t.__name__
        if dataclasses.is_dataclass(t):
            return "ref:" + t.__name__
        if t in (str, int, float, bool, bytes):
            return t.__name__
        if t is _dt.datetime:
            return "datetime"
        if t is _dt.date:
            return "date"
        if t is _dt.time:
            return "time"
        if t is _uuid.UUID:
            return "uuid"
        return "class:" + t.__name__
    if isinstance(t, str):
        return "fwd:" + t
    if isinstance(t, typing.ForwardRef):
        return "fwd:" + t.__forward_arg__
    return "other:" + str(t)[:60]


def model_manifest(job, p):
    out = {"models": {}, "errors": []}
    root, pkg = job["root"], p["pkg"]
    mdir = os.path.join(root, *pkg.split("."), "models")
    if not os.path.isdir(mdir):
        return out
    # If models/__init__ itself cannot be imported (one broken model breaks the package), stub the package so that the
    # other model modules can still be imported and judged in isolation
    try:
        importlib.import_module(f"{pkg}.models")
    except BaseException as e:  # noqa
        out["package_error"] = dict(exc_info(e), module=f"{pkg}.models")
        import types as _types
        for k in [k for k in sys.modules if k == f"{pkg}.models" or k.startswith(f"{pkg}.models.")]:
            del sys.modules[k]
        stub = _types.ModuleType(f"{pkg}.models")
        stub.__path__ = [mdir]
        sys.modules[f"{pkg}.models"] = stub
    for f in sorted(os.listdir(mdir)):
        if not f.endswith(".py") or f == "__init__.py":
            continue
        mname = f"{pkg}.models.{f[:-3]}"
        try:
            mod = importlib.import_module(mname)
        except BaseException as e:  # noqa
            out["errors"].append(dict(exc_info(e), module=mname))
            continue
        for cname, obj in sorted(vars(mod).items()):
            if cname.startswith("__"):
                continue
            defined_here = getattr(obj, "__module__", None) == mname
            entry = None
            if isinstance(obj, type) and defined_here and issubclass(obj, enum.Enum):
                entry = {"kind": "enum", "members": [[m.name, m.value] for m in obj]}
            elif isinstance(obj, type) and defined_here and dataclasses.is_dataclass(obj):
                try:
                    hints = typing.get_type_hints(obj, include_extras=True)
                    herr = None
                except BaseException as e:  # noqa
                    hints, herr = {}, f"{type(e).__name__}: {e}"[:200]
                fields = []
                for fld in dataclasses.fields(obj):
                    has_default = fld.default is not dataclasses.MISSING or fld.default_factory is not dataclasses.MISSING
                    fields.append({"name": fld.name, "ann": tstr(fld.type)[:200],
                                   "kind": kind_of(hints.get(fld.name, fld.type)), "has_default": has_default})
                meta = getattr(obj, "Meta", None)
                entry = {"kind": "dataclass", "fields": fields, "hints_error": herr,
                         "load": dict(getattr(meta, "key_transform_with_load", {}) or {}) if meta else None,
                         "dump": dict(getattr(meta, "key_transform_with_dump", {}) or {}) if meta else None}
            elif defined_here and isinstance(obj, type):
                entry = {"kind": "class", "bases": [b.__name__ for b in obj.__mro__[1:-1]]}
            elif not inspect.ismodule(obj) and not isinstance(obj, type) and cname in getattr(mod, "__all__", []):
                entry = {"kind": "alias", "value": kind_of(obj), "repr": str(obj)[:200]}
            if entry is not None:
                entry["module"] = f[:-3]
                out["models"].setdefault(cname, []).append(entry)
    return out


def nature(fn):
    if inspect.isasyncgenfunction(fn):
        return "asyncgen"
    if inspect.iscoroutinefunction(fn):
        return "coroutine"
    return "plain"


def sig_of(fn):
    try:
        s = inspect.signature(fn)
    except Exception as e:
        return {"error": repr(e)}
    params = []
    for n, prm in s.parameters.items():
        params.append({"name": n, "kind": prm.kind.name, "default": None if prm.default is inspect._empty else repr(prm.default),
                       "has_default": prm.default is not inspect._empty,
                       "ann": None if prm.annotation is inspect._empty else tstr(prm.annotation)})
    return {"params": params, "ret": None if s.return_annotation is inspect._empty else tstr(s.return_annotation),
            "nature": nature(fn)}


def surface_manifest(job, p):
    """clients, protocols, mocks and their methods."""
    out = {"clients": {}, "protocols": {}, "mocks": {}, "api_client": None, "mock_api_client": None, "errors": []}
    root, pkg = job["root"], p["pkg"]
    edir = os.path.join(root, *pkg.split("."), "endpoints")
    if os.path.isdir(edir):
        for f in sorted(os.listdir(edir)):
            if not f.endswith(".py") or f == "__init__.py":
                continue
            mname = f"{pkg}.endpoints.{f[:-3]}"
            try:
                mod = importlib.import_module(mname)
            except BaseException as e:  # noqa
                out["errors"].append(dict(exc_info(e), module=mname))
                continue
            for cname, obj in vars(mod).items():
                if not (isinstance(obj, type) and obj.__module__ == mname):
                    continue
                meths = {n: sig_of(m) for n, m in vars(obj).items() if callable(m) and not n.startswith("_")}
                if getattr(obj, "_is_protocol", False):
                    out["protocols"][cname] = {"module": f[:-3], "methods": meths}
                else:
                    # duplicate definitions in the class body shadow silently: count them in the source
                    import ast as _ast
                    dup = {}
                    try:
                        tree = _ast.parse(open(mod.__file__).read())
                        for node in _ast.walk(tree):
                            if isinstance(node, _ast.ClassDef) and node.name == cname:
                                for b in node.body:
                                    if isinstance(b, (_ast.AsyncFunctionDef, _ast.FunctionDef)) and not b.name.startswith("_"):
                                        decs = [getattr(x, "id", getattr(x, "attr", "")) for x in b.decorator_list]
                                        if "overload" in decs:
                                            continue  # typing.overload stubs legitimately repeat the name
                                        dup[b.name] = dup.get(b.name, 0) + 1
                    except Exception:
                        pass
                    out["clients"][cname] = {"module": f[:-3], "methods": meths,
                                             "bases": [b.__name__ for b in obj.__mro__[1:-1]],
                                             "defs_in_source": dup}
    mdir = os.path.join(root, *pkg.split("."), "mocks", "endpoints")
    if os.path.isdir(mdir):
        for f in sorted(os.listdir(mdir)):
            if not f.endswith(".py") or f == "__init__.py":
                continue
            mname = f"{pkg}.mocks.endpoints.{f[:-3]}"
            try:
                mod = importlib.import_module(mname)
            except BaseException as e:  # noqa
                out["errors"].append(dict(exc_info(e), module=mname))
                continue
            for cname, obj in vars(mod).items():
                if isinstance(obj, type) and obj.__module__ == mname:
                    meths = {n: sig_of(m) for n, m in vars(obj).items() if callable(m) and not n.startswith("_")}
                    out["mocks"][cname] = {"module": f[:-3], "methods": meths}
    # behavioural part: Protocol conformance and mock behaviour
    out["conformance"] = {}
    out["mock_calls"] = []
    proto_objs, client_objs, mock_objs = {}, {}, {}
    for kind, sub in (("endpoints", "endpoints"), ("mocks", "mocks.endpoints")):
        d = os.path.join(root, *pkg.split("."), *sub.split("."))
        if not os.path.isdir(d):
            continue
        for f in sorted(os.listdir(d)):
            if not f.endswith(".py") or f == "__init__.py":
                continue
            try:
                mod = importlib.import_module(f"{pkg}.{sub}.{f[:-3]}")
            except BaseException:  # noqa
                continue
            for cname, obj in vars(mod).items():
                if isinstance(obj, type) and obj.__module__ == mod.__name__:
                    if kind == "mocks":
                        mock_objs[cname] = obj
                    elif getattr(obj, "_is_protocol", False):
                        proto_objs[cname] = obj
                    else:
                        client_objs[cname] = obj
    for cname, cobj in client_objs.items():
        proto = proto_objs.get(cname + "Protocol")
        mock = mock_objs.get("Mock" + cname)
        conf = {"has_protocol": proto is not None, "has_mock": mock is not None}
        try:
            if proto is not None:
                conf["client_isinstance"] = isinstance(cobj(None, "https://x"), proto)
            if proto is not None and mock is not None:
                conf["mock_isinstance"] = isinstance(mock(), proto)
        except BaseException as e:  # noqa
            conf["error"] = f"{type(e).__name__}: {e}"[:200]
        out["conformance"][cname] = conf
    async def _mock_calls():
        for mname, mobj in mock_objs.items():
            try:
                inst = mobj()
            except BaseException as e:  # noqa
                out["mock_calls"].append({"cls": mname, "method": "<init>", "result": f"raise:{type(e).__name__}"})
                continue
            for n, m in vars(mobj).items():
                if n.startswith("_") or not callable(m):
                    continue
                try:
                    kwargs, _, _ = build_kwargs(m, [], lambda v, t: v)
                except BaseException as e:  # noqa
                    out["mock_calls"].append({"cls": mname, "method": n, "result": f"kwargs:{type(e).__name__}"})
                    continue
                try:
                    r = m(inst, **kwargs)
                    if hasattr(r, "__anext__"):
                        await r.__anext__()
                        res = "yielded"
                    elif inspect.isawaitable(r):
                        await r
                        res = "returned"
                    else:
                        res = "returned_sync"
                except NotImplementedError:
                    res = "NotImplementedError"
                except StopAsyncIteration:
                    res = "empty_stream"
                except BaseException as e:  # noqa
                    res = f"raise:{type(e).__name__}:{str(e)[:80]}"
                out["mock_calls"].append({"cls": mname, "method": n, "result": res})
    try:
        asyncio.run(_mock_calls())
    except BaseException as e:  # noqa
        out["errors"].append(exc_info(e))
    for key, modname, cls in (("api_client", f"{pkg}.client", "APIClient"), ("mock_api_client", f"{pkg}.mocks.mock_client", "MockAPIClient")):
        try:
            mod = importlib.import_module(modname)
            c = getattr(mod, cls)
            props = {}
            for n, v in vars(c).items():
                if isinstance(v, property):
                    ra = None
                    try:
                        ra = inspect.signature(v.fget).return_annotation
                    except Exception:
                        pass
                    props[n] = tstr(ra) if ra is not inspect._empty else None
            out[key] = {"properties": props}
        except BaseException as e:  # noqa
            out["errors"].append(dict(exc_info(e), module=modname))
    return out


# ----------------------------------------------------------------------------------------------- value construction
def dummy(t, depth=0):
    """A well-typed dummy value for a resolved annotation."""
    if t is typing.Any or t is inspect._empty:
        return "x"
    origin = typing.get_origin(t)
    if origin is typing.Annotated:
        return dummy(typing.get_args(t)[0], depth)
    if origin in (list, typing.List):
        a = typing.get_args(t)
        return [dummy(a[0], depth + 1)] if a and depth < 6 else []
    if origin in (dict, typing.Dict):
        a = typing.get_args(t)
        return {"k": dummy(a[1], depth + 1)} if len(a) == 2 and depth < 6 else {}
    if origin is typing.Union or type(t).__name__ == "UnionType":
        args = [a for a in typing.get_args(t) if a is not type(None)]
        return dummy(args[0], depth) if args else None
    if origin is typing.Literal:
        return typing.get_args(t)[0]
    if isinstance(t, type):
        if issubclass(t, enum.Enum):
            return list(t)[0]
        if dataclasses.is_dataclass(t):
            try:
                hints = typing.get_type_hints(t)
            except Exception:
                hints = {}
            kw = {}
            for f in dataclasses.fields(t):
                if f.default is dataclasses.MISSING and f.default_factory is dataclasses.MISSING:
                    # required fields are always built (None is not a value of a required field); the bound only guards
                    # against a chain of required references that never ends
                    kw[f.name] = dummy(hints.get(f.name, typing.Any), depth + 1) if depth < 12 else None
            return t(**kw)
        if t is str:
            return "s"
        if t is bool:
            return True
        if t is int:
            return 3
        if t is float:
            return 1.5
        if t is bytes:
            return b"bin"
        if t is _dt.datetime:
            return _dt.datetime(2024, 1, 2, 3, 4, 5, tzinfo=_dt.timezone.utc)
        if t is _dt.date:
            return _dt.date(2024, 1, 2)
        if t is _dt.time:
            return _dt.time(1, 2, 3)
        if t is _uuid.UUID:
            return _uuid.UUID(int=7)
        if t is dict:
            return {}
        if t is list:
            return []
    if hasattr(t, "read"):
        return None
    return "x"


def norm_name(s):
    return "".join(ch for ch in s.lower() if ch.isalnum())


def coerce(value, t, structure):
    """Turn a JSON-ish job value into a value of annotation t (enums by value, dates from ISO text, models via the
    package's own structure_from_dict)."""
    if value is None:
        return None
    origin = typing.get_origin(t)
    if origin is typing.Annotated:
        return coerce(value, typing.get_args(t)[0], structure)
    if origin is typing.Union or type(t).__name__ == "UnionType":
        args = [a for a in typing.get_args(t) if a is not type(None)]
        if len(args) == 1:
            return coerce(value, args[0], structure)
        return structure(value, t)
    if origin in (list, typing.List):
        a = typing.get_args(t)
        # equal JSON items become ONE shared instance (callers legitimately pass the same object several times)
        cache, out = {}, []
        for v in value:
            key = json.dumps(v, sort_keys=True, default=repr)
            if key not in cache:
                cache[key] = coerce(v, a[0] if a else typing.Any, structure)
            out.append(cache[key])
        return out
    if isinstance(t, type):
        if issubclass(t, enum.Enum):
            return t(value)
        if dataclasses.is_dataclass(t):
            return structure(value, t)
        if t is _dt.date and isinstance(value, str):
            return _dt.date.fromisoformat(value)
        if t is _dt.datetime and isinstance(value, str):
            return _dt.datetime.fromisoformat(value.replace("Z", "+00:00"))
        if t is bytes and isinstance(value, str):
            # inside JSON documents binary data travels as base64 text (raw bodies are passed as hex elsewhere)
            try:
                return base64.b64decode(value, validate=True)
            except Exception:  # noqa
                return value.encode()
        if t is _uuid.UUID and isinstance(value, str):
            return _uuid.UUID(value)
        if t is float and isinstance(value, int) and not isinstance(value, bool):
            return float(value)
    return value


# ----------------------------------------------------------------------------------------------- calling operations
class Recorder:
    def __init__(self):
        self.requests = []
        self.plan = None  # dict(status, headers, content) for the next response

    def handler(self, request):
        import httpx

        body = request.content
        self.requests.append({"method": request.method, "path": request.url.path, "raw_path": request.url.raw_path.decode("ascii", "replace"),
                              "query": [[k, v] for k, v in request.url.params.multi_items()],
                              "headers": [[k, v] for k, v in request.headers.multi_items()],
                              "content_type": request.headers.get("content-type"),
                              "body_hex": body.hex() if len(body) < 20000 else None, "body_len": len(body)})
        plan = self.plan or {"status": 200, "json": {}}
        kw = {}
        if "json" in plan and plan["json"] is None:
            kw["content"] = b"null"     # httpx.Response(json=None) would send an EMPTY body, which is not the JSON document null
            plan = dict(plan, headers=dict({"content-type": "application/json"}, **(plan.get("headers") or {})))
        elif "json" in plan:
            kw["json"] = plan["json"]
        elif "content_hex" in plan:
            kw["content"] = bytes.fromhex(plan["content_hex"])
        elif "text" in plan:
            kw["content"] = plan["text"].encode("utf-8")
        elif "chunks_hex" in plan:
            chunks = [bytes.fromhex(c) for c in plan["chunks_hex"]]

            async def agen():
                for c in chunks:
                    yield c

            kw["content"] = agen()
        headers = dict(plan.get("headers") or {})
        return httpx.Response(plan.get("status", 200), headers=headers, **kw)


def make_client(pkg, rec, custom_transport=False):
    """APIClient over the package's own HttpxTransport whose httpx.AsyncClient gets a MockTransport injected."""
    import httpx

    client_mod = importlib.import_module(f"{pkg}.client")
    cfg_mod = None
    for cand in ("core.config",):
        pass
    # find ClientConfig from the client's module namespace (imported from the designated core)
    ClientConfig = getattr(client_mod, "ClientConfig")
    orig = httpx.AsyncClient

    class CapturingClient(httpx.AsyncClient):
        def __init__(self, *a, **kw):
            kw["transport"] = httpx.MockTransport(rec.handler)
            super().__init__(*a, **kw)

    httpx.AsyncClient = CapturingClient
    try:
        cfg = ClientConfig(base_url="https://api.test")
        if custom_transport:
            inner = CapturingClient(base_url="https://api.test")

            class PassThroughTransport:
                """Minimal custom transport that hands non-2xx responses back unraised."""

                async def request(self, method, url, **kwargs):
                    h = kwargs.get("headers")
                    if isinstance(h, dict):  # a realistic transport renders header values as text
                        kwargs["headers"] = {k: (v if isinstance(v, (str, bytes)) else str(v)) for k, v in h.items()}
                    return await inner.request(method, url, **kwargs)

                async def close(self):
                    await inner.aclose()

            api = client_mod.APIClient(cfg, transport=PassThroughTransport())
        else:
            api = client_mod.APIClient(cfg)
    finally:
        httpx.AsyncClient = orig
    return api


def tag_clients(api):
    out = {}
    for n, v in vars(type(api)).items():
        if isinstance(v, property):
            try:
                out[n] = getattr(api, n)
            except BaseException as e:  # noqa
                out[n] = e
    return out


def public_methods(obj):
    res = {}
    for n in dir(type(obj)):
        if n.startswith("__"):
            continue  # a digit-leading operationId legitimately becomes e.g. `_1s`: single underscore names count
        m = getattr(type(obj), n, None)
        if inspect.iscoroutinefunction(m) or inspect.isasyncgenfunction(m):
            res[n] = m
    return res


def jsonable(v, unstructure, depth=0):
    if v is None or isinstance(v, (str, int, float, bool)):
        return v
    if isinstance(v, bytes):
        return {"__bytes_hex__": v.hex()}
    if isinstance(v, enum.Enum):
        return {"__enum__": type(v).__name__, "value": v.value}
    if dataclasses.is_dataclass(v) and not isinstance(v, type):
        try:
            return {"__dataclass__": type(v).__name__, "unstructured": unstructure(v)}
        except BaseException as e:  # noqa
            return {"__dataclass__": type(v).__name__, "unstructure_error": f"{type(e).__name__}: {e}"[:300]}
    if isinstance(v, (list, tuple)):
        return [jsonable(x, unstructure, depth + 1) for x in v]
    if isinstance(v, dict):
        return {str(k): jsonable(x, unstructure, depth + 1) for k, x in v.items()}
    if isinstance(v, (_dt.datetime, _dt.date, _dt.time)):
        return {"__iso__": v.isoformat()}
    if isinstance(v, _uuid.UUID):
        return {"__uuid__": str(v)}
    return {"__repr__": repr(v)[:200], "__type__": type(v).__name__}


def type_matches(v, t, depth=0):
    """Structural isinstance of a returned value against the annotated return type."""
    if t is typing.Any or t is inspect._empty:
        return True
    if t is None or t is type(None):
        return v is None
    origin = typing.get_origin(t)
    if origin is typing.Annotated:
        return type_matches(v, typing.get_args(t)[0], depth)
    if origin in (list, typing.List):
        a = typing.get_args(t)
        return isinstance(v, list) and all(type_matches(x, a[0], depth + 1) for x in v) if a else isinstance(v, list)
    if origin in (dict, typing.Dict):
        a = typing.get_args(t)
        return isinstance(v, dict) and (len(a) != 2 or all(type_matches(x, a[1], depth + 1) for x in v.values()))
    if origin is typing.Union or type(t).__name__ == "UnionType":
        return any(type_matches(v, a, depth) for a in typing.get_args(t))
    if origin is typing.Literal:
        return v in typing.get_args(t)
    if isinstance(t, type):
        if t is float:
            return isinstance(v, (int, float)) and not isinstance(v, bool)
        if t is int:
            return isinstance(v, int) and not isinstance(v, bool)
        return isinstance(v, t)
    return True


async def call_method(api_pkg, bound, fn, kwargs, rec, plan, unstructure):
    rec.requests.clear()
    rec.plan = plan
    res = {"requests": None, "outcome": None}
    try:
        hints = typing.get_type_hints(fn)
    except BaseException:  # noqa
        hints = {}
    try:
        if inspect.isasyncgenfunction(fn):
            items = []
            async for it in fn(bound, **kwargs):
                items.append(it)
                if len(items) > 10000:
                    break
            res["outcome"] = {"kind": "stream", "items": jsonable(items, unstructure)}
            ret_t = hints.get("return", inspect._empty)
        else:
            val = await fn(bound, **kwargs)
            ret_t = hints.get("return", inspect._empty)
            if hasattr(val, "__aiter__") and not isinstance(val, (list, dict, str, bytes)):
                items = []
                async for it in val:
                    items.append(it)
                res["outcome"] = {"kind": "stream", "items": jsonable(items, unstructure)}
            else:
                res["outcome"] = {"kind": "return", "value": jsonable(val, unstructure), "pytype": type(val).__name__,
                                  "type_ok": type_matches(val, ret_t), "ret_ann": tstr(ret_t)[:200]}
    except BaseException as e:  # noqa
        if isinstance(e, (KeyboardInterrupt, SystemExit)):
            raise
        info = exc_info(e)
        info["mro"] = [c.__name__ for c in type(e).__mro__]
        info["mro_modules"] = [c.__module__ for c in type(e).__mro__]
        sc = getattr(e, "status_code", "<absent>")
        info["status_code"] = sc if isinstance(sc, (int, type(None))) else repr(sc)
        r = getattr(e, "response", None)
        info["response_status"] = getattr(r, "status_code", None)
        res["outcome"] = {"kind": "raise", "exc": info}
    res["requests"] = list(rec.requests)
    return res


def build_kwargs(fn, args_spec, structure):
    """args_spec: list of {"name": spec name, "in": loc, "value": json}|{"body": json}; matched to signature params by
    alphanumeric-only case-folded comparison. Missing required params get dummies. Returns (kwargs, unmatched, mapping)."""
    try:
        hints = typing.get_type_hints(fn)
    except BaseException:  # noqa
        hints = {}
    sig = inspect.signature(fn)
    params = [p for n, p in sig.parameters.items() if n != "self"]
    by_norm = {}
    for p in params:
        by_norm.setdefault(norm_name(p.name), []).append(p)
    kwargs, unmatched, mapping = {}, [], {}
    for a in args_spec or []:
        if "body" in a:
            cand = [p for p in params if p.name in ("body", "files", "form_data", "bytes_content")]
            if not cand:
                unmatched.append("<body>")
                continue
            p = cand[0]
            v = a["body"]
            if p.name == "files":
                import io
                v = {k: io.BytesIO(bytes.fromhex(x)) for k, x in v.items()}
            elif p.name == "bytes_content":
                v = bytes.fromhex(v)
            elif p.name == "body":
                v = coerce(v, hints.get(p.name, typing.Any), structure)
            kwargs[p.name] = v
            mapping["<body>"] = p.name
            continue
        cands = by_norm.get(norm_name(a["name"]), [])
        if not cands:
            unmatched.append(a["name"])
            continue
        p = cands[0]
        kwargs[p.name] = coerce(a["value"], hints.get(p.name, typing.Any), structure)
        mapping[a["in"] + ":" + a["name"]] = p.name
    for p in params:
        if p.name not in kwargs and p.default is inspect._empty and p.kind not in (p.VAR_KEYWORD, p.VAR_POSITIONAL):
            kwargs[p.name] = dummy(hints.get(p.name, typing.Any))
    return kwargs, unmatched, mapping


async def discovery_call(pkg, cl, fn, rec, structure, unstructure):
    """Dummy call used to learn which operation a method serves; retried with a dummy body when the first attempt sent nothing
    (overloaded methods insist on one of body/data/files)."""
    kwargs, _, _ = build_kwargs(fn, [], structure)
    r = await call_method(pkg, cl, fn, kwargs, rec, {"status": 200, "json": {}}, unstructure)
    if not r["requests"]:
        try:
            hints = typing.get_type_hints(fn)
        except BaseException:  # noqa
            hints = {}
        for p in inspect.signature(fn).parameters.values():
            if p.name in ("body", "data", "files", "form_data", "bytes_content") and p.name not in kwargs:
                kw2 = dict(kwargs)
                kw2[p.name] = dummy(hints.get(p.name, typing.Any))
                r2 = await call_method(pkg, cl, fn, kw2, rec, {"status": 200, "json": {}}, unstructure)
                if r2["requests"]:
                    return r2
    return r


async def discover(job, p):
    """Call every public coroutine / async-generator method of every tag client once with dummy arguments and
    record which (HTTP method, path) it hit."""
    pkg = p["pkg"]
    out = {"methods": [], "errors": [], "api_properties": []}
    rec = Recorder()
    try:
        api = make_client(pkg, rec)
        conv = importlib.import_module(f"{p.get('core') or pkg + '.core'}.cattrs_converter")
    except BaseException as e:  # noqa
        out["errors"].append(exc_info(e))
        return out
    structure, unstructure = conv.structure_from_dict, conv.unstructure_to_dict
    for tag, cl in tag_clients(api).items():
        out["api_properties"].append(tag)
        if isinstance(cl, BaseException):
            out["errors"].append(dict(exc_info(cl), tag=tag))
            continue
        for name, fn in public_methods(cl).items():
            r = await discovery_call(pkg, cl, fn, rec, structure, unstructure)
            out["methods"].append({"tag": tag, "cls": type(cl).__name__, "method": name, "nature": nature(fn),
                                   "requests": [[q["method"], q["path"]] for q in r["requests"]],
                                   "outcome_kind": r["outcome"]["kind"],
                                   "exc": r["outcome"].get("exc", {}).get("type") if r["outcome"]["kind"] == "raise" else None,
                                   "exc_detail": r["outcome"].get("exc") if r["outcome"]["kind"] == "raise" else None})
    try:
        await api.close()
    except BaseException:  # noqa
        pass
    return out


async def positional_calls(job, p):
    """job['positional_calls'] = [{"id":.., "seg":.., "http":.., "values": [...]}]: call fn(*values) (arguments in signature order)."""
    pkg = p["pkg"]
    out = {"results": {}, "errors": []}
    rec = Recorder()
    try:
        api = make_client(pkg, rec)
        conv = importlib.import_module(f"{p.get('core') or pkg + '.core'}.cattrs_converter")
    except BaseException as e:  # noqa
        out["errors"].append(exc_info(e))
        return out
    index = {}
    for tag, cl in tag_clients(api).items():
        if isinstance(cl, BaseException):
            continue
        for name, fn in public_methods(cl).items():
            r = await discovery_call(pkg, cl, fn, rec, conv.structure_from_dict, conv.unstructure_to_dict)
            for q in r["requests"]:
                parts = [x for x in q["path"].split("/") if x]
                if parts:
                    index[(parts[0], q["method"])] = (cl, name, fn)
    for c in job.get("positional_calls", []):
        key = (c["seg"], c["http"])
        if c["http"] == "*":     # any method of that path segment (jobs shared by several packages)
            key = next((k for k in index if k[0] == c["seg"]), key)
        if key not in index:
            out["results"][c["id"]] = {"error": "operation_not_found"}
            continue
        cl, name, fn = index[key]
        rec.requests.clear()
        rec.plan = {"status": 200, "json": {}}
        res = {"method_name": name, "sig": sig_of(fn)}
        try:
            await fn(cl, *c["values"])
        except BaseException as e:  # noqa
            res["exc"] = exc_info(e)
        res["requests"] = list(rec.requests)
        out["results"][c["id"]] = res
    return out


async def run_calls(job, p):
    """job['calls'] = [{"id":..,"seg": "op3", "http": "GET", "args": [...], "plan": {...}, "custom_transport": bool}]"""
    pkg = p["pkg"]
    out = {"results": {}, "errors": []}
    rec = Recorder()
    rec2 = Recorder()
    try:
        api = make_client(pkg, rec)
        api2 = None
        conv = importlib.import_module(f"{p.get('core') or pkg + '.core'}.cattrs_converter")
    except BaseException as e:  # noqa
        out["errors"].append(exc_info(e))
        return out
    structure, unstructure = conv.structure_from_dict, conv.unstructure_to_dict
    # discovery: seg -> (client obj, fn)
    index = {}
    for tag, cl in tag_clients(api).items():
        if isinstance(cl, BaseException):
            continue
        for name, fn in public_methods(cl).items():
            r = await discovery_call(pkg, cl, fn, rec, structure, unstructure)
            for q in r["requests"]:
                parts = [s for s in q["path"].split("/") if s]
                if parts:
                    index.setdefault((parts[0], q["method"]), []).append((tag, cl, name, fn))
    out["index"] = {f"{k[0]} {k[1]}": [[t, n] for t, _, n, _ in v] for k, v in index.items()}
    for c in job.get("calls", []):
        key = (c["seg"], c["http"])
        if c["http"] == "*":     # any method of that path segment (jobs shared by several packages)
            key = next((k for k in index if k[0] == c["seg"]), key)
        if key not in index:
            out["results"][c["id"]] = {"error": "operation_not_found"}
            continue
        tag, cl, name, fn = index[key][0]
        use_rec = rec
        if c.get("custom_transport"):
            if api2 is None:
                api2 = make_client(pkg, rec2, custom_transport=True)
            cl2 = getattr(api2, tag)
            cl, use_rec = cl2, rec2
        try:
            kwargs, unmatched, mapping = build_kwargs(fn, c.get("args"), structure)
        except BaseException as e:  # noqa
            out["results"][c["id"]] = {"error": "build_kwargs", "exc": exc_info(e)}
            continue
        r = await call_method(pkg, cl, fn, kwargs, use_rec, c.get("plan") or {"status": 200, "json": {}}, unstructure)
        r["unmatched"] = unmatched
        r["mapping"] = mapping
        r["method_name"] = name
        r["sig"] = sig_of(fn)
        out["results"][c["id"]] = r
    return out


# ----------------------------------------------------------------------------------------------- round trips
_MODEL_INDEX = {}


def resolve_model(pkg, schema_name):
    """Find the generated class/alias for a spec schema name: alphanumeric-only case-folded match of the exported name."""
    idx = _MODEL_INDEX.get(pkg)
    if idx is None:
        idx = {}
        mods = importlib.import_module(f"{pkg}.models")
        for n in dir(mods):
            if not n.startswith("_"):
                idx.setdefault(norm_name(n), []).append(getattr(mods, n))
        _MODEL_INDEX[pkg] = idx
    cands = [c for c in idx.get(norm_name(schema_name), []) if not inspect.ismodule(c)]
    if not cands:
        raise LookupError(f"no exported model matches schema name {schema_name!r}")
    return cands[0]


def roundtrips(job, p):
    """job['roundtrips'] = [{"id":.., "model": "Pet" | {"alias": "Pets"}, "module": "pet", "json": ...}]"""
    pkg = p["pkg"]
    out = {"results": {}, "errors": []}
    try:
        conv = importlib.import_module(f"{p.get('core') or pkg + '.core'}.cattrs_converter")
    except BaseException as e:  # noqa
        out["errors"].append(exc_info(e))
        return out
    n = 0
    for c in job.get("roundtrips", []):
        n += 1
        try:
            if c.get("module"):
                mod = importlib.import_module(f"{pkg}.models.{c['module']}")
                cls = getattr(mod, c["model"])
            else:
                cls = resolve_model(pkg, c["model"])
        except BaseException as e:  # noqa
            out["results"][c["id"]] = {"stage": "import", "exc": exc_info(e)}
            continue
        try:
            inst = conv.structure_from_dict(c["json"], cls)
        except BaseException as e:  # noqa
            out["results"][c["id"]] = {"stage": "structure", "exc": exc_info(e)}
            continue
        try:
            # the bundled converter's documented entry point is unstructure_to_dict(model); containers around models
            # (array aliases, maps) are walked here and each model goes through that entry point.  DataclassSerializer is
            # NOT used: it is the request-body serialiser and strips nulls by design, which C03 does not speak about.
            def _un(x):
                if dataclasses.is_dataclass(x) and not isinstance(x, type):
                    return conv.unstructure_to_dict(x)
                if isinstance(x, list):
                    return [_un(i) for i in x]
                if isinstance(x, dict):
                    return {k: _un(v) for k, v in x.items()}
                if x is None or type(x) in (str, int, float, bool):
                    return x
                return conv.converter.unstructure(x)
            back = _un(inst)
            json.dumps(back)
        except BaseException as e:  # noqa
            out["results"][c["id"]] = {"stage": "unstructure", "exc": exc_info(e), "pytype": type(inst).__name__}
            continue
        out["results"][c["id"]] = {"stage": "ok", "back": back, "pytype": type(inst).__name__}
    return out


def exercise_models(job, p):
    """Structure and unstructure something with every model class so imports nested in generated functions execute."""
    pkg = p["pkg"]
    out = {"models": 0, "wrappers": 0, "generator_needed": [], "other_errors": 0}
    try:
        conv = importlib.import_module(f"{p.get('core') or pkg + '.core'}.cattrs_converter")
    except BaseException as e:  # noqa
        return out
    mdir = os.path.join(job["root"], *pkg.split("."), "models")
    if not os.path.isdir(mdir):
        return out
    for f in sorted(os.listdir(mdir)):
        if not f.endswith(".py") or f == "__init__.py":
            continue
        try:
            mod = importlib.import_module(f"{pkg}.models.{f[:-3]}")
        except BaseException:  # noqa
            continue
        for cname, obj in vars(mod).items():
            if not (isinstance(obj, type) and obj.__module__ == mod.__name__ and dataclasses.is_dataclass(obj)):
                continue
            is_wrapper = "_data" in {fl.name for fl in dataclasses.fields(obj)}
            try:
                if is_wrapper:
                    out["wrappers"] += 1
                    inst = conv.structure_from_dict({}, obj)
                    conv.unstructure_to_dict(inst)
                    try:
                        conv.structure_from_dict({"k": {}}, obj)
                    except ImportError:
                        raise
                    except BaseException as e:  # noqa
                        if "No module named" in str(e) or BLOCKED in str(e):
                            raise ImportError(str(e))
                else:
                    out["models"] += 1
                    inst = dummy(obj)
                    back = conv.unstructure_to_dict(inst)
                    conv.structure_from_dict(back, obj)
            except BaseException as e:  # noqa
                if BLOCKED in str(e) or isinstance(e, ImportError):
                    out["generator_needed"].append(dict(exc_info(e), cls=cname, module=f[:-3]))
                else:
                    out["other_errors"] += 1
    return out


def main():
    job = json.loads(open(sys.argv[1]).read())
    setup(job)
    out = {"packages": {}}
    acts = job.get("actions", ["import_all"])
    if "import_all" in acts:
        out["import_all"] = import_all(job)
    for p in job["packages"]:
        po = {}
        if "models" in acts:
            po["models"] = model_manifest(job, p)
        if "surface" in acts:
            po["surface"] = surface_manifest(job, p)
        if "discover" in acts:
            po["discover"] = asyncio.run(discover(job, p))
        if "calls" in acts:
            po["calls"] = asyncio.run(run_calls(job, p))
        if "positional_calls" in acts:
            po["positional_calls"] = asyncio.run(positional_calls(job, p))
        if "roundtrips" in acts:
            po["roundtrips"] = roundtrips(job, p)
        if "exercise_models" in acts:
            po["exercise_models"] = exercise_models(job, p)
        out["packages"][p["pkg"]] = po
    if "core_symbols" in acts:
        missing = {}
        for g, mods in (job.get("core_symbols") or {}).items():
            miss = []
            for m, names in mods.items():
                try:
                    mod = importlib.import_module(m)
                except BaseException as e:  # noqa
                    miss.append(f"{m} (module import fails: {type(e).__name__}: {str(e)[:100]})")
                    continue
                for n in names:
                    if not hasattr(mod, n):
                        miss.append(f"{m}.{n}")
            missing[g] = miss
        out["core_symbols_missing"] = missing
    out["generator_importable"] = False
    try:
        importlib.import_module(BLOCKED)
        out["generator_importable"] = True
    except ImportError:
        pass
    if _REACH:
        out["reach"] = {f: sorted(v) for f, v in _REACH.items()}
    open(sys.argv[2], "w").write(json.dumps(out, default=repr))


if __name__ == "__main__":
    main()
