"""A second, schema-centred document grammar: compositional type expressions (depth <= 3) over every shape the property
statements name - nullable anything, arrays of arrays, maps of arrays / maps / models, nested inline objects, free-form
objects, named maps, named primitive aliases with formats, objects that also allow additional properties.

Independent of the repository.  Produces the same Doc / expectation-model shape as specgen (so instgen and the probes
work unchanged) plus `model_feats`: the shapes that occur inside each named schema (transitively through references), which
is what a violation on that model is attributed to.
"""
from __future__ import annotations

from typing import Any

from .specgen import Doc, ref

NAMES = ["Pet", "Order", "Invoice", "Shipment", "Account", "Sensor", "Device", "Reading", "Customer", "Ticket", "Route", "Parcel",
         "HTTPValidationError", "user_profile", "OrderV2"]     # (names that class-name derivation rewrites)
PROP_POOL = ["id", "name", "createdAt", "updated_at", "unit-price", "itemCount", "tags", "meta", "owner", "parent_id", "isActive",
             "geo.lat", "$ref_like", "@type", "class", "from", "X-Rate", "9lives", "total", "notes", "homeURL", "e_mail"]
FORMATS = [None, None, None, "date-time", "date", "uuid", "byte", "email", "uri", "time"]


class Rich:
    def __init__(self, rng, allow: set[str], prof: dict | None = None) -> None:
        self.rng = rng
        self.allow = allow
        self.prof = dict({"schemas": (4, 7), "max_props": 6, "depth": 3}, **(prof or {}))
        self.schemas: dict[str, Any] = {}
        self.sexp: dict[str, Any] = {}
        self.uses: dict[str, set[str]] = {}      # shapes used directly inside each named schema
        self.refs: dict[str, set[str]] = {}
        self.uniq = 0
        self.cur = ""

    # ------------------------------------------------------------------ helpers
    def use(self, shape: str) -> None:
        self.uses.setdefault(self.cur, set()).add(shape)

    def objects(self) -> list[str]:
        return [n for n, e in self.sexp.items() if e["kind"] == "object" and n != self.cur]

    def enums(self) -> list[str]:
        return [n for n, e in self.sexp.items() if e["kind"] == "enum"]

    def prim(self) -> tuple[dict, dict]:
        r = self.rng
        t = r.choice(["string", "string", "integer", "number", "boolean"])
        node: dict[str, Any] = {"type": t}
        e = {"kind": t, "format": None}
        if t == "string":
            f = r.choice(FORMATS)
            if f:
                node["format"] = f
                e["format"] = f
                self.use(f"format_{f}")
        elif t == "integer" and r.random() < 0.4:
            node["format"] = r.choice(["int32", "int64"])
        return node, e

    # ------------------------------------------------------------------ type expressions
    def texp(self, depth: int, anon: bool = False) -> tuple[dict, dict]:
        """(schema node, expectation) of a random type expression; containers recurse while depth allows.
        anon: this expression sits inside a map value or an array item, i.e. it has no property name of its own."""
        r = self.rng
        kinds = ["prim", "prim", "enum_inline", "free_form"]
        if self.objects():
            kinds += ["ref", "ref"]
        if self.enums():
            kinds += ["ref_enum"]
        aliases = [n for n, e in self.sexp.items() if e["kind"] in ("prim_alias",)]
        if aliases:
            kinds += ["ref_prim_alias"]
        if depth < self.prof["depth"]:
            kinds += ["array", "array", "map", "inline_object"]
        k = r.choice(kinds)
        if k == "prim":
            node, e = self.prim()
        elif k == "enum_inline":
            if r.random() < 0.7:
                vals: list[Any] = r.sample(["active", "inactive", "on-hold", "A", "b c", "1st", ""], r.randint(2, 4))
                node = {"type": "string", "enum": vals}
            else:
                vals = r.sample([0, 1, 2, 10, -1], r.randint(2, 3))
                node = {"type": "integer", "enum": vals}
                self.use("int_enum_inline")
            e = {"kind": "enum_inline", "values": vals}
            if depth == 0 and r.random() < 0.3:
                node["default"] = e["default"] = r.choice(vals)
                self.use("enum_default")
            if "" in vals:
                self.use("enum_empty_string_value")
            self.use("enum_inline")
        elif k == "free_form":
            # clean grammar: the explicit spelling (additionalProperties: true); the keyword-less spellings {} and
            # {"type": "object"} are the trigger class 'free_form_empty_schema' (recorded finding of C03)
            variant = r.choice(["bare_object", "addl_true", "any"]) if "free_form_empty_schema" in self.allow else "addl_true"
            if variant != "addl_true":
                self.use("free_form_empty_schema")
            node = {"bare_object": {"type": "object"}, "addl_true": {"type": "object", "additionalProperties": True}, "any": {}}[variant]
            e = {"kind": "free_form", "variant": variant}
            self.use(f"free_form_{variant}")
        elif k == "ref":
            t = r.choice(self.objects())
            node, e = ref(t), {"kind": "ref", "target": t}
            self.refs.setdefault(self.cur, set()).add(t)
        elif k == "ref_enum":
            t = r.choice(self.enums())
            node, e = ref(t), {"kind": "ref_enum", "target": t}
            self.refs.setdefault(self.cur, set()).add(t)
            self.use("ref_enum")
        elif k == "ref_prim_alias":
            t = r.choice(aliases)
            node, e = ref(t), {"kind": "ref_alias", "target": t}
            self.refs.setdefault(self.cur, set()).add(t)
            self.use("ref_prim_alias")
        elif k == "array":
            inner, ie = self.texp(depth + 1, anon=anon)     # only map values are nameless; arrays pass that on
            needs_class = ie["kind"] not in ("string", "integer", "number", "boolean", "ref", "ref_enum", "ref_alias")
            if anon and needs_class and "anonymous_array_items" not in self.allow:
                # items that need a class of their own inside an array that has no name either are called
                # AnonymousArrayItem<N> in parse order (recorded finding of C19): the clean grammar uses nameless leaves there
                inner, ie = self.prim()
            elif anon and needs_class:
                self.use("anonymous_array_items")
            node, e = {"type": "array", "items": inner}, {"kind": "array", "items": ie}
            self.use(f"array_of_{ie['kind']}")
        elif k == "map":
            inner, ie = self.texp(depth + 1, anon=True)
            node, e = {"type": "object", "additionalProperties": inner}, {"kind": "map", "values": ie}
            self.use(f"map_of_{ie['kind']}")
        else:
            props, pexp, req = self.props(depth + 1, r.randint(1, 3))
            node = {"type": "object", "properties": props}
            if req:
                node["required"] = req
            e = {"kind": "inline_object", "props": pexp}
            self.use(f"inline_object_depth{depth + 1}")
        # nullable: any expression may be nullable (3.0 spelling; a nullable reference needs the allOf wrapper)
        if r.random() < 0.2 and k not in ("free_form",):
            if "$ref" in node:
                node = {"allOf": [node], "nullable": True}
            else:
                node["nullable"] = True
                if "enum" in node and node.get("type") == "string":
                    node["enum"] = node["enum"] + [None]
            e["nullable"] = True
            self.use(f"nullable_{e['kind']}")
        return node, e

    def props(self, depth: int, n: int) -> tuple[dict, dict, list[str]]:
        r = self.rng
        props, pexp, req = {}, {}, []
        for pn in r.sample(PROP_POOL, min(n, len(PROP_POOL))):
            node, e = self.texp(depth)
            # inline enums / maps / objects are promoted to schemas named after the bare property name: keep those names
            # unique per document (reuse is the recorded trigger class 'promoted_name_reuse' of C01)
            self.uniq += 1
            pn = f"{pn}{'Q' if pn[-1].isdigit() else ''}{self.uniq}x"
            props[pn] = node
            isreq = r.random() < 0.4
            if isreq:
                req.append(pn)
            pexp[pn] = dict(e, required=isreq)
        if depth == 0 and r.random() < 0.3:
            # three wire keys around one derived field name: camelCase and snake_case spellings of the same words, and a
            # key spelled like the name a de-collided field gets (addrLine7x / addr_line7x / addr_line7x_2)
            self.uniq += 1
            u = self.uniq
            trio = [(f"addrLine{u}x", "string"), (f"addr_line{u}x", "integer"), (f"addr_line{u}x_2", "boolean")]
            r.shuffle(trio)
            for k, (pn, t) in enumerate(trio):
                props[pn] = {"type": t}
                isreq = k == 2 and r.random() < 0.5
                if isreq:
                    req.append(pn)
                pexp[pn] = {"kind": t, "format": None, "required": isreq}
            self.use("colliding_property_trio")
        return props, pexp, req

    # ------------------------------------------------------------------ named schemas
    def add_object(self, name: str) -> None:
        r = self.rng
        props, pexp, req = self.props(0, r.randint(1, self.prof["max_props"]))
        node: dict[str, Any] = {"type": "object", "properties": props}
        if req:
            node["required"] = req
        e: dict[str, Any] = {"kind": "object", "props": pexp, "parents": []}
        if "object_with_extras" in self.allow and r.random() < 0.5:
            if r.random() < 0.5:
                node["additionalProperties"] = True
                e["extras"] = {"kind": "free_form", "variant": "any"}
            else:
                inner, ie = self.prim()
                node["additionalProperties"] = inner
                e["extras"] = ie
            self.use("object_with_extras")
        self.schemas[name] = node
        self.sexp[name] = e

    def add_enum(self, name: str) -> None:
        r = self.rng
        if r.random() < 0.7:
            vals: list[Any] = r.sample(["red", "green", "dark-blue", "Light Grey", "x1", "UPPER", "ünï"], r.randint(2, 4))
            self.schemas[name] = {"type": "string", "enum": vals}
        else:
            vals = r.sample([1, 2, 3, 10, 404], r.randint(2, 4))
            self.schemas[name] = {"type": "integer", "enum": vals}
        self.sexp[name] = {"kind": "enum", "values": vals}

    def add_named_map(self, name: str) -> None:
        inner, ie = self.texp(1, anon=True)
        self.schemas[name] = {"type": "object", "additionalProperties": inner}
        self.sexp[name] = {"kind": "map_alias", "values": ie}
        self.use(f"named_map_of_{ie['kind']}")

    def add_named_array(self, name: str) -> None:
        inner, ie = self.texp(1)
        self.schemas[name] = {"type": "array", "items": inner}
        self.sexp[name] = {"kind": "array_alias", "items": ie}
        self.use(f"named_array_of_{ie['kind']}")

    def add_prim_alias(self, name: str) -> None:
        node, e = self.prim()
        self.schemas[name] = node
        self.sexp[name] = {"kind": "prim_alias", "prim": e}
        self.use("prim_alias" + (f"_format_{e['format']}" if e.get("format") else ""))

    def build(self) -> Doc:
        r = self.rng
        lo, hi = self.prof["schemas"]
        names = r.sample(NAMES, r.randint(lo, hi))
        for i, nm in enumerate(names):
            self.cur = nm
            k = r.random()
            if i == 0 or k < 0.55:
                self.add_object(nm)
            elif k < 0.68:
                self.add_enum(nm)
            elif k < 0.8:
                self.add_named_map(nm)
            elif k < 0.9:
                self.add_named_array(nm)
            else:
                self.add_prim_alias(nm)
        # one operation per named schema keeps every schema reachable the way a real document does
        paths = {}
        for nm in names:
            paths[f"/{nm.lower()}"] = {"get": {"operationId": f"get{nm}", "tags": ["things"], "responses": {
                "200": {"description": "ok", "content": {"application/json": {"schema": ref(nm)}}}}}}
        doc = {"openapi": "3.0.3", "info": {"title": "Rich API", "version": "1.0.0"}, "paths": paths,
               "components": {"schemas": self.schemas}}
        feats = set()
        for s in self.uses.values():
            feats |= s
        d = Doc(doc, self.sexp, [], {f"rich_{f}" for f in feats})
        d.model_feats = {n: sorted(f"rich_{f}" for f in self.closure_feats(n)) for n in names}   # type: ignore[attr-defined]
        return d

    def closure_feats(self, name: str) -> set[str]:
        seen, todo, out = set(), [name], set()
        while todo:
            n = todo.pop()
            if n in seen:
                continue
            seen.add(n)
            out |= self.uses.get(n, set())
            todo += list(self.refs.get(n, ()))
        return out


def generate(rng, allow: set[str] | None = None, prof: dict | None = None) -> Doc:
    return Rich(rng, allow or set(), prof).build()
