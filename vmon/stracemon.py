"""Syscall-level file-system event recorder: run a command under `strace -f -y` and turn the log into the same
(kind, absolute path, classification) events the audit-hook monitor (fsmon.py) produces.

Needed where the work is done by CHILD processes (the post-processing stage runs `python -m ruff ...` three times): an
in-process audit hook cannot see what they do. Only calls that SUCCEEDED are events (a failed mkdir / O_EXCL open has no
effect). Relative names are resolved through the descriptor decoration `-y` prints (`AT_FDCWD</cwd>`, `6</dir>`), and for the
old path-only calls (mkdir, rename, unlink, rmdir ...) through a per-process cwd table maintained from chdir / clone / fork.
"""
from __future__ import annotations

import os
import re
import subprocess
from pathlib import Path

TRACE = ("open,openat,openat2,creat,mkdir,mkdirat,rename,renameat,renameat2,unlink,unlinkat,rmdir,symlink,symlinkat,link,linkat,"
         "truncate,chmod,fchmodat,utimensat,utime,utimes,chdir,fchdir,clone,clone3,fork,vfork")
WRITE_WORDS = ("O_WRONLY", "O_RDWR", "O_CREAT", "O_TRUNC", "O_APPEND")

_line = re.compile(r"^(\d+)\s+(\w+)\((.*)\)\s+=\s+(-?\d+|\?)(.*)$")
_unfinished = re.compile(r"^(\d+)\s+(\w+)\((.*) <unfinished \.\.\.>$")
_resumed = re.compile(r"^(\d+)\s+<\.\.\. (\w+) resumed>(.*)$")
_str = re.compile(r'"((?:[^"\\]|\\.)*)"')
_fd = re.compile(r"^(AT_FDCWD|\d+)<([^>]*)>")


def _unescape(s: str) -> str:
    try:
        return s.encode("latin-1", "backslashreplace").decode("unicode_escape").encode("latin-1", "ignore").decode("utf-8", "replace")
    except Exception:
        return s


def _split_args(s: str) -> list[str]:
    out, cur, depth, inq, esc = [], "", 0, False, False
    for ch in s:
        if inq:
            cur += ch
            if esc:
                esc = False
            elif ch == "\\":
                esc = True
            elif ch == '"':
                inq = False
            continue
        if ch == '"':
            inq = True
            cur += ch
        elif ch in "([{<":
            depth += 1
            cur += ch
        elif ch in ")]}>":
            depth -= 1
            cur += ch
        elif ch == "," and depth == 0:
            out.append(cur.strip())
            cur = ""
        else:
            cur += ch
    if cur.strip():
        out.append(cur.strip())
    return out


class Trace:
    def __init__(self) -> None:
        self.events: list[tuple[str, str, str]] = []
        self.lines = 0
        self.calls = 0
        self.pids: set[str] = set()
        self.unparsed = 0
        self.returncode: int | None = None
        self.stdout = ""
        self.stderr = ""


def run(cmd: list[str], cwd: Path, env: dict, log: Path, timeout: float = 600.0) -> Trace:
    """Run cmd under strace; parse the log; events carry absolute paths."""
    t = Trace()
    full = ["strace", "-f", "-y", "-qq", "-s", "4096", "-e", f"trace={TRACE}", "-o", str(log)] + cmd
    r = subprocess.run(full, cwd=str(cwd), env=env, capture_output=True, text=True, timeout=timeout)
    t.returncode, t.stdout, t.stderr = r.returncode, r.stdout[-4000:], r.stderr[-4000:]
    parse(log, str(cwd), t)
    return t


def parse(log: Path, cwd0: str, t: Trace) -> Trace:
    cwds: dict[str, str] = {}
    pending: dict[str, tuple[str, str]] = {}

    def cwd_of(pid: str) -> str:
        return cwds.get(pid, cwd0)

    def resolve(pid: str, dirspec: str | None, name: str) -> str:
        if os.path.isabs(name):
            return os.path.normpath(name)
        base = cwd_of(pid)
        if dirspec:
            m = _fd.match(dirspec)
            if m:
                base = m.group(2)
        return os.path.normpath(os.path.join(base, name))

    def path_arg(a: str) -> str | None:
        m = _str.match(a)
        return _unescape(m.group(1)) if m else None

    def handle(pid: str, name: str, argstr: str, ret: str, tail: str) -> None:
        t.calls += 1
        t.pids.add(pid)
        if ret == "?" or ret.startswith("-"):
            return
        args = _split_args(argstr)
        ev = t.events.append
        try:
            if name in ("clone", "clone3", "fork", "vfork"):
                cwds[ret] = cwd_of(pid)
            elif name == "chdir":
                p = path_arg(args[0])
                if p is not None:
                    cwds[pid] = resolve(pid, None, p)
            elif name == "fchdir":
                m = _fd.match(args[0])
                if m:
                    cwds[pid] = m.group(2)
            elif name in ("open", "creat"):
                flags = args[1] if name == "open" and len(args) > 1 else "O_CREAT|O_WRONLY|O_TRUNC"
                if any(w in flags for w in WRITE_WORDS):
                    ev(("write_open", resolve(pid, None, path_arg(args[0]) or ""), "effect"))
            elif name in ("openat", "openat2"):
                flags = args[2] if len(args) > 2 else ""
                if any(w in flags for w in WRITE_WORDS):
                    ev(("write_open", resolve(pid, args[0], path_arg(args[1]) or ""), "effect"))
            elif name == "mkdir":
                ev(("mkdir", resolve(pid, None, path_arg(args[0]) or ""), "effect"))
            elif name == "mkdirat":
                ev(("mkdir", resolve(pid, args[0], path_arg(args[1]) or ""), "effect"))
            elif name == "rename":
                ev(("rename_from", resolve(pid, None, path_arg(args[0]) or ""), "effect"))
                ev(("rename_to", resolve(pid, None, path_arg(args[1]) or ""), "effect"))
            elif name in ("renameat", "renameat2"):
                ev(("rename_from", resolve(pid, args[0], path_arg(args[1]) or ""), "effect"))
                ev(("rename_to", resolve(pid, args[2], path_arg(args[3]) or ""), "effect"))
            elif name == "unlink":
                ev(("remove", resolve(pid, None, path_arg(args[0]) or ""), "effect"))
            elif name == "unlinkat":
                kind = "rmdir" if len(args) > 2 and "AT_REMOVEDIR" in args[2] else "remove"
                ev((kind, resolve(pid, args[0], path_arg(args[1]) or ""), "effect"))
            elif name == "rmdir":
                ev(("rmdir", resolve(pid, None, path_arg(args[0]) or ""), "effect"))
            elif name in ("symlink", "link"):
                ev((name, resolve(pid, None, path_arg(args[1]) or ""), "effect"))
            elif name == "symlinkat":
                ev(("symlink", resolve(pid, args[1], path_arg(args[2]) or ""), "effect"))
            elif name == "linkat":
                ev(("link", resolve(pid, args[2], path_arg(args[3]) or ""), "effect"))
            elif name in ("truncate", "chmod", "utime", "utimes"):
                ev((name, resolve(pid, None, path_arg(args[0]) or ""), "effect"))
            elif name in ("fchmodat", "utimensat"):
                p = path_arg(args[1]) if len(args) > 1 else None
                if p is not None:
                    ev((name, resolve(pid, args[0], p), "effect"))
                else:
                    m = _fd.match(args[0])          # utimensat(fd</path>, NULL, ...) = futimens
                    if m:
                        ev((name, m.group(2), "effect"))
        except Exception:
            t.unparsed += 1

    for raw in log.read_text(errors="replace").splitlines():
        t.lines += 1
        m = _unfinished.match(raw)
        if m:
            pending[m.group(1)] = (m.group(2), m.group(3))
            continue
        m = _resumed.match(raw)
        if m:
            pid, name, rest = m.groups()
            pname, pargs = pending.pop(pid, (name, ""))
            mm = re.match(r"^(.*)\)\s+=\s+(-?\d+|\?)(.*)$", rest)
            if mm:
                handle(pid, pname, pargs + mm.group(1), mm.group(2), mm.group(3))
            else:
                t.unparsed += 1
            continue
        m = _line.match(raw)
        if m:
            pid, name, argstr, ret, tail = m.groups()
            handle(pid, name, argstr, ret, tail)
        elif raw and "+++" not in raw and "---" not in raw:
            t.unparsed += 1
    return t


def available() -> bool:
    try:
        r = subprocess.run(["strace", "-f", "-o", "/dev/null", "/bin/true"], capture_output=True, timeout=20)
        return r.returncode == 0
    except Exception:
        return False
