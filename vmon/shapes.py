"""Exhaustive catalogue of property type shapes up to two wrappers deep: wrapper(wrapper(leaf)).

Leaves: primitives, formatted strings, inline enums, references (model / enum / primitive alias) and the free-form
positions; wrappers: array, map (additionalProperties), nullable, inline object.  Each shape becomes ONE model with one
property, so whatever goes wrong is attributed to exactly that shape.  Independent of the repository.
"""
from __future__ import annotations

import itertools
from typing import Any

from .specgen import Doc, ref

LEAVES = ["str", "int", "num", "bool", "str:date-time", "str:date", "str:uuid", "str:byte", "str:binary", "str:time", "enum_str", "enum_int",
          "ref_obj", "ref_enum", "ref_alias_dt", "any", "object_bare", "object_addl_true",
          # unions of models with disjoint required keys (so that first-match decoding is unambiguous), flat and nested
          "oneof_refs", "anyof_refs", "anyof_named_union", "oneof_inline_union",
          # {"$ref": X, "nullable": true}: not valid 3.0 (siblings of $ref are ignored) but written by many tools
          "ref_obj_sibling_nullable",
          # rarely written but legal: an enum without a type, a one-value boolean enum, a 3.1 list of two types, an array
          # without items (any items: belongs to the keyword-less-schema class)
          "enum_untyped", "bool_enum", "type_list_str_int", "array_no_items",
          # references to schemas whose declared NAME class-name derivation rewrites (acronym run, snake_case)
          "ref_obj_rw", "ref_enum_rw", "ref_alias_rw",
          # integer enums WITHOUT a type keyword, inline and as a referenced schema (the value kind has to come from the values)
          "enum_untyped_int", "ref_enum_untyped_int"]
WRAPPERS = ["array", "map", "nullable", "inline", "nullable31"]   # nullable31: the OpenAPI 3.1 spellings (type arrays / anyOf null)


def all_shapes(max_wrappers: int = 2) -> list[tuple[str, ...]]:
    out: list[tuple[str, ...]] = []
    for n in range(max_wrappers + 1):
        for ws in itertools.product(WRAPPERS, repeat=n):
            if any(a.startswith("nullable") and b.startswith("nullable") for a, b in zip(ws, ws[1:])):
                continue
            for leaf in LEAVES:
                out.append(tuple(ws) + (leaf,))
    return out


def chunked(max_wrappers: int, size: int) -> list[list[tuple[int, tuple[str, ...]]]]:
    """The catalogue cut into documents of `size` shapes; 3.1-spelled shapes never share a document with 3.0-spelled ones
    (a document states one OpenAPI version)."""
    cat = list(enumerate(all_shapes(max_wrappers)))
    v30 = [x for x in cat if "nullable31" not in x[1] and x[1][-1] != "type_list_str_int"]
    v31 = [x for x in cat if "nullable31" in x[1] or x[1][-1] == "type_list_str_int"]
    return [part[i:i + size] for part in (v30, v31) for i in range(0, len(part), size)]


def expr(shape: tuple[str, ...]) -> str:
    s = shape[-1]
    for w in reversed(shape[:-1]):
        s = f"{w}({s})"
    return s


def features(shape: tuple[str, ...]) -> list[str]:
    f = {f"leaf_{shape[-1]}"} | {f"w_{w}" for w in shape[:-1]}
    for a, b in zip(shape, shape[1:]):
        f.add(f"pair_{a}>{b}")
    f.add(f"shape_{expr(shape)}")
    if shape[-1] in ("any", "object_bare", "array_no_items"):
        f.add("rich_free_form_empty_schema")   # same trigger name as in the random grammar
    return sorted(f)


def leaf_node(leaf: str) -> tuple[dict, dict]:
    if leaf in ("str", "int", "num", "bool"):
        t = {"str": "string", "int": "integer", "num": "number", "bool": "boolean"}[leaf]
        return {"type": t}, {"kind": t, "format": None}
    if leaf.startswith("str:"):
        return {"type": "string", "format": leaf[4:]}, {"kind": "string", "format": leaf[4:]}
    if leaf == "enum_str":
        vals: list[Any] = ["active", "on-hold", "b c"]
        return {"type": "string", "enum": vals}, {"kind": "enum_inline", "values": vals}
    if leaf == "enum_int":
        vals = [0, 1, 10]
        return {"type": "integer", "enum": vals}, {"kind": "enum_inline", "values": vals}
    if leaf == "ref_obj":
        return ref("Leaf"), {"kind": "ref", "target": "Leaf"}
    if leaf == "enum_untyped":
        vals = ["plain", "two words"]
        return {"enum": vals}, {"kind": "enum_inline", "values": vals}
    if leaf == "bool_enum":
        return {"type": "boolean", "enum": [True]}, {"kind": "enum_inline", "values": [True]}
    if leaf == "type_list_str_int":
        return {"type": ["string", "integer"]}, {"kind": "prim_union", "of": ["string", "integer"]}
    if leaf == "array_no_items":
        return {"type": "array"}, {"kind": "array", "items": {"kind": "free_form", "variant": "any"}}
    if leaf == "ref_obj_sibling_nullable":
        # siblings of $ref are ignored in OpenAPI 3.0, so null is NOT a conforming value here: the expectation is a plain
        # reference (no null instances are produced); the leaf exists for what generators do when they meet the sibling
        return dict(ref("Leaf"), nullable=True), {"kind": "ref", "target": "Leaf", "sibling_nullable": True}
    if leaf == "ref_enum":
        return ref("Colour"), {"kind": "ref_enum", "target": "Colour"}
    if leaf == "ref_alias_dt":
        return ref("Timestamp"), {"kind": "ref_alias", "target": "Timestamp"}
    if leaf == "enum_untyped_int":
        vals = [0, 1, 10]
        return {"enum": vals}, {"kind": "enum_inline", "values": vals, "untyped_int": True}
    if leaf == "ref_enum_untyped_int":
        return ref("UntypedLevel"), {"kind": "ref_enum", "target": "UntypedLevel"}
    if leaf == "ref_obj_rw":
        return ref("HTTPLeaf"), {"kind": "ref", "target": "HTTPLeaf"}
    if leaf == "ref_enum_rw":
        return ref("colour_code"), {"kind": "ref_enum", "target": "colour_code"}
    if leaf == "ref_alias_rw":
        return ref("time_stamp"), {"kind": "ref_alias", "target": "time_stamp"}
    if leaf == "any":
        return {}, {"kind": "free_form", "variant": "any"}
    if leaf == "object_bare":
        return {"type": "object"}, {"kind": "free_form", "variant": "bare_object"}
    if leaf == "object_addl_true":
        return {"type": "object", "additionalProperties": True}, {"kind": "free_form", "variant": "addl_true"}
    if leaf == "oneof_refs":
        return {"oneOf": [ref("Leaf"), ref("Other")]}, {"kind": "union", "variants": ["Leaf", "Other"]}
    if leaf == "anyof_refs":
        return {"anyOf": [ref("Leaf"), ref("Other")]}, {"kind": "union", "variants": ["Leaf", "Other"]}
    if leaf == "anyof_named_union":      # a member that is itself a (named) union
        return {"anyOf": [ref("Choice"), ref("Third")]}, {"kind": "union", "variants": ["Leaf", "Other", "Third"]}
    if leaf == "oneof_inline_union":     # a member that is itself an inline union
        return ({"oneOf": [{"anyOf": [ref("Leaf"), ref("Other")]}, ref("Third")]},
                {"kind": "union", "variants": ["Leaf", "Other", "Third"]})
    raise AssertionError(leaf)


def build(shape: tuple[str, ...], uid: str) -> tuple[dict, dict]:
    node, e = leaf_node(shape[-1])
    for depth, w in enumerate(reversed(shape[:-1])):
        if w == "array":
            node, e = {"type": "array", "items": node}, {"kind": "array", "items": e}
        elif w == "map":
            node, e = {"type": "object", "additionalProperties": node}, {"kind": "map", "values": e}
        elif w == "nullable":
            if "$ref" in node:
                node = {"allOf": [node], "nullable": True}
            else:
                node = dict(node, nullable=True)
                if "enum" in node and node.get("type") == "string":
                    # (an integer enum listing null is rejected by the generator: "Input value for integer enum naming
                    # must be str or int" - a rejection, not a violation; integer enums are made nullable without it)
                    node["enum"] = node["enum"] + [None]
            e = dict(e, nullable=True)
        elif w == "nullable31":
            # three 3.1 spellings, chosen by the shape itself (deterministic): a type list, anyOf [X, null], oneOf [X, null]
            spelling = (len(shape) + LEAVES.index(shape[-1]) + depth) % 3
            if isinstance(node.get("type"), str) and "enum" not in node and spelling == 0:
                node = dict(node, type=[node["type"], "null"])
            elif "enum" in node and node.get("type") == "string" and spelling == 0:
                node = dict(node, type=["string", "null"], enum=node["enum"] + [None])
            else:
                node = {("oneOf" if spelling == 2 else "anyOf"): [node, {"type": "null"}]}
            e = dict(e, nullable=True)
        else:
            pn = f"inner{uid}d{depth}x"
            node = {"type": "object", "properties": {pn: node}}
            e = {"kind": "inline_object", "props": {pn: dict(e, required=False)}}
    return node, e


def document(shapes: list[tuple[int, tuple[str, ...]]]) -> Doc:
    """One model per shape: S<i> with the single optional property p<i>x (names unique: inline kinds are promoted to schemas
    named after the property)."""
    schemas: dict[str, Any] = {
        "Leaf": {"type": "object", "properties": {"label": {"type": "string"}, "count": {"type": "integer"}}, "required": ["label"]},
        "Colour": {"type": "string", "enum": ["red", "dark-blue"]},
        "Timestamp": {"type": "string", "format": "date-time"},
        "Other": {"type": "object", "properties": {"other_key": {"type": "integer"}}, "required": ["other_key"]},
        "Third": {"type": "object", "properties": {"third_key": {"type": "boolean"}}, "required": ["third_key"]},
        "Choice": {"oneOf": [ref("Leaf"), ref("Other")]},
        "UntypedLevel": {"enum": [1, 2, 3]},
        "HTTPLeaf": {"type": "object", "properties": {"label": {"type": "string"}, "count": {"type": "integer"}}, "required": ["label"]},
        "colour_code": {"type": "string", "enum": ["red", "dark-blue"]},
        "time_stamp": {"type": "string", "format": "date-time"},
    }
    sexp: dict[str, Any] = {
        "HTTPLeaf": {"kind": "object", "parents": [], "props": {"label": {"kind": "string", "format": None, "required": True},
                                                                "count": {"kind": "integer", "format": None, "required": False}}},
        "colour_code": {"kind": "enum", "values": ["red", "dark-blue"]},
        "UntypedLevel": {"kind": "enum", "values": [1, 2, 3]},
        "time_stamp": {"kind": "prim_alias", "prim": {"kind": "string", "format": "date-time"}},
        "Leaf": {"kind": "object", "parents": [], "props": {"label": {"kind": "string", "format": None, "required": True},
                                                            "count": {"kind": "integer", "format": None, "required": False}}},
        "Colour": {"kind": "enum", "values": ["red", "dark-blue"]},
        "Timestamp": {"kind": "prim_alias", "prim": {"kind": "string", "format": "date-time"}},
        "Other": {"kind": "object", "parents": [], "props": {"other_key": {"kind": "integer", "format": None, "required": True}}},
        "Third": {"kind": "object", "parents": [], "props": {"third_key": {"kind": "boolean", "format": None, "required": True}}},
        "Choice": {"kind": "union_alias", "variants": ["Leaf", "Other"]},
    }
    paths = {}
    mf = {}
    for i, sh in shapes:
        node, e = build(sh, str(i))
        name = f"S{i}"
        req = i % 3 == 1     # every third shape is a REQUIRED property (nullable and required are independent)
        schemas[name] = {"type": "object", "properties": {f"p{i}x": node}, **({"required": [f"p{i}x"]} if req else {})}
        sexp[name] = {"kind": "object", "parents": [], "props": {f"p{i}x": dict(e, required=req)}, "shape": expr(sh)}
        mf[name] = features(sh)
        if i % 7 == 3:
            # the model also allows additional properties (typed or free): its declared field must still be there
            typed = i % 14 == 3
            schemas[name]["additionalProperties"] = {"type": "integer"} if typed else True
            sexp[name]["extras"] = {"kind": "integer", "format": None} if typed else {"kind": "free_form", "variant": "any"}
            mf[name] = mf[name] + ["rich_object_with_extras"]
        paths[f"/s{i}"] = {"get": {"operationId": f"getS{i}", "tags": ["shapes"], "responses": {
            "200": {"description": "ok", "content": {"application/json": {"schema": ref(name)}}}}}}
    v = "3.1.0" if any("nullable31" in sh or sh[-1] == "type_list_str_int" for _, sh in shapes) else "3.0.3"
    doc = {"openapi": v, "info": {"title": "Shapes", "version": "1"}, "paths": paths, "components": {"schemas": schemas}}
    d = Doc(doc, sexp, [], set())
    d.model_feats = mf   # type: ignore[attr-defined]
    return d


def response_document(shapes: list[tuple[int, tuple[str, ...]]]) -> Doc:
    """One GET operation per shape whose 200 response body IS the shape (not wrapped in a model): /s<i>/res."""
    base = document([])
    schemas = base.doc["components"]["schemas"]
    paths, ops, of = {}, [], {}
    for i, sh in shapes:
        if sh[-1] == "str:binary" and all(w.startswith("nullable") for w in sh[:-1]):
            continue      # a bare binary string as the whole body means a byte stream, not a JSON document
        if sh[-1] == "type_list_str_int":
            continue      # (recorded for models in C03; not repeated for bodies)
        node, e = build(sh, f"r{i}")
        seg = f"s{i}"
        paths[f"/{seg}/res"] = {"get": {"operationId": f"getShape{i}", "tags": ["shapes"], "responses": {
            "200": {"description": "ok", "content": {"application/json": {"schema": node}}}}}}
        ops.append({"seg": seg, "path": f"/{seg}/res", "method": "GET", "tags": ["shapes"], "operationId": f"getShape{i}", "params": [],
                    "body": None, "responses": {"200": {"content": "json", "schema": e}}, "shape": expr(sh)})
        of[seg] = features(sh)
    v = "3.1.0" if any("nullable31" in sh or sh[-1] == "type_list_str_int" for _, sh in shapes) else "3.0.3"
    doc = {"openapi": v, "info": {"title": "Shapes", "version": "1"}, "paths": paths, "components": {"schemas": schemas}}
    d = Doc(doc, base.sexp, ops, set())
    d.op_feats = of   # type: ignore[attr-defined]
    return d


def request_document(shapes: list[tuple[int, tuple[str, ...]]]) -> Doc:
    """One POST operation per shape whose required JSON request body IS the shape: /s<i>/res."""
    base = document([])
    schemas = base.doc["components"]["schemas"]
    paths, ops, of = {}, [], {}
    for i, sh in shapes:
        if sh[-1] == "str:binary" and all(w.startswith("nullable") for w in sh[:-1]):
            continue
        if sh[-1] == "type_list_str_int":
            continue
        node, e = build(sh, f"q{i}")
        seg = f"s{i}"
        paths[f"/{seg}/res"] = {"post": {"operationId": f"sendShape{i}", "tags": ["shapes"], "requestBody": {
            "required": True, "content": {"application/json": {"schema": node}}}, "responses": {"204": {"description": "done"}}}}
        ops.append({"seg": seg, "path": f"/{seg}/res", "method": "POST", "tags": ["shapes"], "operationId": f"sendShape{i}", "params": [],
                    "body": {"media": "application/json", "schema": e, "required": True}, "responses": {"204": {"content": None}},
                    "shape": expr(sh)})
        of[seg] = features(sh)
    v = "3.1.0" if any("nullable31" in sh or sh[-1] == "type_list_str_int" for _, sh in shapes) else "3.0.3"
    doc = {"openapi": v, "info": {"title": "Shapes", "version": "1"}, "paths": paths, "components": {"schemas": schemas}}
    d = Doc(doc, base.sexp, ops, set())
    d.op_feats = of   # type: ignore[attr-defined]
    return d
