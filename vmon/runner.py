"""Entry point: ./check Cnn [--tier quick|thorough] [--replay F]

Orchestrates shards (fresh subprocesses, never multiprocessing.Pool), merges what their monitors
observed, attributes violations to known findings (trigger predicate + failure signature), writes the
evidence file and prints the verdict.

exit 0  held on everything observed (KNOWN-FINDING lines for listed open findings)
exit 1  >= 1 violation not covered by known_findings.json   (VIOLATION property=.. replay=..)
exit 2  inconclusive (deciding monitor never reached / too few cases / watchdog)
"""
from __future__ import annotations

import argparse
import importlib
import json
import os
import re
import subprocess
import sys
import time
from pathlib import Path
from typing import Any

from . import common
from .common import VERIF_ROOT, Ctx, Rec


def load_findings() -> dict[str, Any]:
    p = VERIF_ROOT / "known_findings.json"
    if not p.exists():
        return {"open": [], "fixed": []}
    return json.loads(p.read_text())


def match_finding(prop: str, v: dict[str, Any], findings: dict[str, Any]) -> dict[str, Any] | None:
    for f in findings.get("open", []):
        if f["property"] != prop:
            continue
        if f["trigger"] not in v.get("features", []):
            continue
        if re.search(f["signature"], v["sig"]):
            return f
    return None


def shard_main(args: argparse.Namespace) -> int:
    os.environ[common.GUARD] = "1"
    mod = importlib.import_module(f"vmon.props.{args.prop.lower()}")
    i, n = (int(x) for x in args.shard.split("/"))
    ctx = Ctx(args.prop, args.tier, args.seed, i, n)
    os.environ["TMPDIR"] = ctx.scratch.tmpdir()
    import tempfile

    tempfile.tempdir = None
    t0 = time.time()
    from . import reach
    reach_on = os.environ.get("VERIF_REACH", "1") != "0" and reach.start([str(common.REPO_SRC / "pyopenapi_gen") + os.sep])
    try:
        if args.replay:
            case = json.loads(Path(args.replay).read_text())
            mod.replay(ctx, case)
        else:
            mod.run_shard(ctx)
    finally:
        hits = reach.stop() if reach_on else {}
        ctx.scratch.cleanup()
    out = ctx.rec.to_json()
    # code reach: generator lines executed in this worker + runtime lines executed inside emitted clients (probe)
    rr: dict[str, set[int]] = {}
    for f, lines in hits.items():
        try:
            rr.setdefault(str(Path(f).relative_to(common.REPO_SRC)), set()).update(lines)
        except ValueError:
            pass
    try:
        from . import genrun
        for f, lines in genrun.REACH.items():
            rr.setdefault(f, set()).update(lines)
    except Exception:
        pass
    out["reach"] = {f: sorted(v) for f, v in rr.items()}
    out["wall_s"] = time.time() - t0
    Path(args.out).write_text(json.dumps(out, default=str))
    return 0


def run_shards(prop: str, tier: str, seed: int, nshards: int, timeout_s: float, outdir: Path,
               replay: str | None = None) -> tuple[list[dict[str, Any]], list[str]]:
    env = dict(os.environ)
    env.setdefault("PYTHONHASHSEED", "0")
    env["PYTHONPATH"] = str(VERIF_ROOT)
    env[common.GUARD] = "1"
    env["PYTHONDONTWRITEBYTECODE"] = "1"
    # shards keep their scratch under this run's directory: whatever happens to a shard (watchdog, kill), the run removes it
    env["VERIF_SCRATCH_BASE"] = str(outdir)
    procs = []
    for i in range(nshards):
        out = outdir / f"shard{i}.json"
        cmd = [common.PY, "-m", "vmon.runner", prop, "--tier", tier, "--seed", str(seed),
               "--shard", f"{i}/{nshards}", "--out", str(out)]
        if replay:
            cmd += ["--replay", replay]
        log = open(outdir / f"shard{i}.log", "w")
        procs.append((i, out, log, subprocess.Popen(cmd, cwd=str(VERIF_ROOT), env=env, stdout=log,
                                                    stderr=subprocess.STDOUT)))
    results, problems = [], []
    deadline = time.time() + timeout_s
    for i, out, log, p in procs:
        try:
            p.wait(timeout=max(1.0, deadline - time.time()))
        except subprocess.TimeoutExpired:
            p.kill()
            p.wait()
            problems.append(f"shard {i} hit the wall-clock watchdog ({timeout_s:.0f}s)")
            log.close()
            continue
        log.close()
        if p.returncode != 0 or not out.exists():
            tail = (outdir / f"shard{i}.log").read_text()[-1500:]
            problems.append(f"shard {i} exited {p.returncode}: {tail}")
            continue
        results.append(json.loads(out.read_text()))
    return results, problems


def merge(results: list[dict[str, Any]]) -> dict[str, Any]:
    m: dict[str, Any] = {"evaluations": 0, "distinct": set(), "nontrivial": set(), "counters": {},
                         "violations": [], "samples": [], "inconclusive": [], "sets": {}, "sigcounts": {}, "reach": {}}
    for r in results:
        m["evaluations"] += r["evaluations"]
        m["distinct"].update(r["distinct"])
        m["nontrivial"].update(r["nontrivial"])
        for k, v in r["counters"].items():
            if k.startswith("max_"):
                m["counters"][k] = max(m["counters"].get(k, 0), v)
            else:
                m["counters"][k] = m["counters"].get(k, 0) + v
        m["violations"].extend(r["violations"])
        if len(m["samples"]) < 4:
            m["samples"].extend(r["samples"][: 4 - len(m["samples"])])
        m["inconclusive"].extend(r["inconclusive"])
        for k, v in r["sets"].items():
            m["sets"].setdefault(k, set()).update(v)
        for k, v in r.get("sigcounts", {}).items():
            m["sigcounts"][k] = m["sigcounts"].get(k, 0) + v
        for f, lines in r.get("reach", {}).items():
            m["reach"].setdefault(f, set()).update(lines)
    return m


def main(argv: list[str] | None = None) -> int:
    ap = argparse.ArgumentParser()
    ap.add_argument("prop")
    ap.add_argument("--tier", default=os.environ.get("VERIF_TIER", "quick"), choices=["quick", "thorough"])
    ap.add_argument("--seed", type=int, default=int(os.environ.get("VERIF_SEED", "0") or 0))
    ap.add_argument("--shard")
    ap.add_argument("--out")
    ap.add_argument("--replay")
    args = ap.parse_args(argv)
    args.prop = args.prop.upper()
    if args.shard:
        return shard_main(args)

    prop, tier, seed = args.prop, args.tier, args.seed
    if args.replay:
        try:
            if json.loads(Path(args.replay).read_text()).get("sig", "").startswith("extent_grew:"):
                # an extent violation is a property of the whole exhaustive workload: replay = run that workload again
                args.replay = None
        except Exception:
            pass
    t0 = time.time()
    common.sweep_stale_scratch()
    mod = importlib.import_module(f"vmon.props.{prop.lower()}")
    if getattr(mod, "NEEDS_DEPS", False) and not common.ensure_deps():
        print(f"INCONCLUSIVE property={prop} reason=could not install icontract/deal into .deps")
        return 2
    nshards = 1 if args.replay else getattr(mod, "SHARDS", {}).get(tier, 16)
    timeout_s = getattr(mod, "TIMEOUT", {}).get(tier, 900 if tier == "quick" else 4 * 3600)
    scratch = common.Scratch(f"{prop}-main")
    try:
        results, problems = run_shards(prop, tier, seed, nshards, timeout_s, scratch.root, args.replay)
    finally:
        pass
    m = merge(results)
    m["inconclusive"].extend(problems)
    fin = getattr(mod, "finalize", None)
    if fin and not args.replay:
        fin(m, tier, seed)
    scratch.cleanup()

    if os.environ.get("VERIF_KEEP"):
        d = VERIF_ROOT / ".scratch"
        d.mkdir(exist_ok=True)
        (d / f"last-{prop}.json").write_text(json.dumps(
            {"violations": m["violations"], "counters": m["counters"], "inconclusive": m["inconclusive"]}, default=str))
    findings = load_findings()
    new, known = [], {}
    for v in m["violations"]:
        f = match_finding(prop, v, findings)
        if f:
            known.setdefault(f["id"], []).append(v)
        else:
            new.append(v)
    # extent monitor: a known finding is identified by its mechanism AND the inputs it was recorded on. Where a workload is
    # exhaustive and deterministic (so the number of affected cases is a fixed number on the recorded tree), more affected
    # cases than recorded means new failing inputs: a different violation of the same property, reported as such.
    if not args.replay:
        for f in findings.get("open", []):
            ext = (f.get("extent") or {}).get(tier) if f["property"] == prop else None
            for sig, recorded in (ext or {}).items():
                seen_n = m["sigcounts"].get(sig, 0)
                if seen_n > recorded:
                    new.append({"sig": f"extent_grew:{f['id']}:{sig}", "features": [], "detail":
                                f"{sig} observed {seen_n}x, recorded extent of {f['id']} on this workload is {recorded}",
                                "case": {"finding": f["id"], "signature": sig, "observed": seen_n, "recorded": recorded}})
    # group new violations by signature: one replay per distinct signature
    by_sig: dict[str, list[dict[str, Any]]] = {}
    for v in new:
        by_sig.setdefault(v["sig"], []).append(v)

    for f in findings.get("open", []):
        if f["property"] == prop:
            n = len(known.get(f["id"], []))
            print(f"KNOWN-FINDING: property={prop} {f['id']}: {f['what']} [observed {n}x in this run]")

    floor = getattr(mod, "FLOOR", {}).get(tier, 2)
    nontriv = len(m["nontrivial"])
    if not args.replay:   # a replay re-runs one recorded case: coverage floors do not apply to it
        if nontriv < floor:
            m["inconclusive"].append(f"only {nontriv} distinct non-trivial cases observed (floor {floor})")
        for name in getattr(mod, "REQUIRED_COUNTERS", []):
            if m["counters"].get(name, 0) == 0:
                m["inconclusive"].append(f"deciding monitor counter '{name}' is zero")

    counters = dict(sorted(m["counters"].items()))
    coverage = {
        "evaluations": m["evaluations"],
        "distinct_nontrivial": nontriv,
        "distinct_cases": len(m["distinct"]),
        "rule": getattr(mod, "RULE", ""),
        "samples": m["samples"][:4] or [{"note": "no sample recorded"}],
        "monitor_counters": counters,
        "observed_sets": {k: sorted(v)[:400] for k, v in m["sets"].items()},
        "observed_set_sizes": {k: len(v) for k, v in m["sets"].items()},
        "known_findings_observed": {k: len(v) for k, v in known.items()},
        "signature_counts_uncapped": dict(sorted(m["sigcounts"].items())),
        "new_violation_signatures": sorted(by_sig)[:50],
        "inconclusive_reasons": m["inconclusive"][:20],
        "shards": nshards,
        "repo_src_sha256": common.tree_hash(),
        "repo_root": str(common.REPO_ROOT),
    }
    if getattr(mod, "EXHAUSTIVE", {}).get(tier):
        coverage["exhaustive"] = True
    if m["reach"] and not args.replay:
        from . import reach
        anchors = [a for a in getattr(mod, "REACH_ANCHORS", [])]
        summ = reach.summarise(m["reach"], common.REPO_SRC)
        if anchors:
            summ["anchored_files"] = {a: {"reached": len(m["reach"].get(a, set()) & reach.executable_lines(common.REPO_SRC / a)),
                                          "executable": len(reach.executable_lines(common.REPO_SRC / a))} for a in anchors}
        coverage["code_reach"] = summ
        if os.environ.get("VERIF_KEEP"):
            (VERIF_ROOT / ".scratch" / f"reach-{prop}.json").write_text(json.dumps({f: sorted(v) for f, v in m["reach"].items()}))
    ev = {
        "property_id": prop, "tier": tier, "seed": seed, "level": getattr(mod, "LEVEL", "exploration"),
        "coverage": coverage, "assumptions": getattr(mod, "ASSUMPTIONS", []),
        "wall_s": round(time.time() - t0, 2), "violations": len(by_sig),
    }
    if not args.replay:
        evdir = VERIF_ROOT / "evidence"
        evdir.mkdir(exist_ok=True)
        (evdir / f"{prop}.json").write_text(json.dumps(ev, indent=1, default=str) + "\n")

    rc = 0
    if by_sig:
        rdir = VERIF_ROOT / "replays"
        rdir.mkdir(exist_ok=True)
        for sig, vs in sorted(by_sig.items()):
            slug = re.sub(r"[^A-Za-z0-9]+", "-", sig)[:60].strip("-")
            path = rdir / f"{prop}-{slug}-{common.chash(sig)[:6]}-{seed}.json"
            v = vs[0]
            path.write_text(json.dumps({"property": prop, "sig": sig, "features": v["features"],
                                        "case": v["case"], "detail": v["detail"], "count": len(vs)},
                                       indent=1, default=str))
            print(f"VIOLATION property={prop} replay={path}  # {sig} ({len(vs)}x) {v['detail'][:200]!r}")
        rc = 1
    elif m["inconclusive"]:
        for r in m["inconclusive"][:5]:
            print(f"INCONCLUSIVE property={prop} reason={r[:400]}")
        rc = 2
    print(f"{prop} tier={tier} seed={seed}: evaluations={m['evaluations']} distinct_nontrivial={nontriv} "
          f"new_violations={len(by_sig)} known_observed={sum(len(v) for v in known.values())} "
          f"wall={time.time() - t0:.1f}s rc={rc}")
    return rc


if __name__ == "__main__":
    sys.exit(main())
