"""C13 — endpoint clients, their Protocols and their mocks have identical surfaces.

Monitor: the probe imports the emitted package in a fresh interpreter and reads, for every tag, the client class, its
Protocol and its mock class: method sets, inspect.signature of each method (names, order, kinds, defaults, annotation
strings, return annotation), call nature; isinstance(client/mock instance, Protocol); every mock method is CALLED and must
raise NotImplementedError (async generators at the first __anext__); MockAPIClient vs APIClient tag properties.
"""
from __future__ import annotations

import json

from .. import common, genrun, shapes, specgen
from ..common import Ctx

LEVEL = "exploration"
SHARDS = {"quick": 16, "thorough": 16}
FLOOR = {"quick": 80, "thorough": 1500}
REQUIRED_COUNTERS = ["triples_compared", "methods_compared", "mock_methods_called", "isinstance_checks",
                     "docs_with_multi_tag", "docs_with_overloads", "docs_with_streaming",
                     "docs_with_streaming_non_primary_response"]
RULE = ("documents with multi-tag operations, tag spelling variants, multi-content-type (overloaded) operations, streaming "
        "operations, many optional parameters; case = document; non-trivial = >=2 operations or >=2 tags or a multi-tag / "
        "overloaded / streaming operation")
ASSUMPTIONS = ["a Protocol stub for an async-generator method may be a plain def returning AsyncIterator; nature is compared as "
               "'what a call returns' (awaitable vs async iterator)"]

TAG_VARIANTS = [["pets"], ["Pets"], ["user-admin"], ["user_admin"], ["User Admin"], ["store"], ["PETS"],
                ["petstore"], ["petStore"], ["DataSources"], ["datasources"], ["data_sources"]]   # same tag, different word splits


def norm_nature(sig: dict, is_protocol: bool) -> str:
    n = sig.get("nature")
    ret = sig.get("ret") or ""
    if n == "asyncgen":
        return "async_iterator"
    if n == "coroutine":
        return "awaitable"
    if "AsyncIterator" in ret:
        return "async_iterator"
    return "plain"


def sig_key(sig: dict) -> list:
    return [[p["name"], p["kind"], p["has_default"], p["default"], p["ann"]] for p in sig.get("params", [])] + [["->", sig.get("ret")]]


def judge(surface: dict, rec, feats: list[str], case: dict) -> None:
    clients, protos, mocks = surface["clients"], surface["protocols"], surface["mocks"]
    for cname, c in clients.items():
        if not cname.endswith("Client"):
            continue
        rec.count("triples_compared")
        p = protos.get(cname + "Protocol")
        m = mocks.get("Mock" + cname)
        if p is None:
            rec.violation("surface:protocol_missing", feats, case, cname)
        if m is None:
            rec.violation("surface:mock_class_missing", feats, case, cname)
        cm = {k: v for k, v in c["methods"].items()}
        for other, label in ((p, "protocol"), (m, "mock")):
            if other is None:
                continue
            om = other["methods"]
            if set(om) != set(cm):
                rec.violation(f"surface:{label}_method_set_differs", feats, case,
                              f"{cname}: client {sorted(cm)} vs {label} {sorted(om)}")
            for name in set(cm) & set(om):
                rec.count("methods_compared")
                if sig_key(cm[name]) != sig_key(om[name]):
                    rec.violation(f"surface:{label}_signature_differs", feats, case,
                                  f"{cname}.{name}: client {sig_key(cm[name])} vs {label} {sig_key(om[name])}")
                if norm_nature(cm[name], False) != norm_nature(om[name], label == "protocol"):
                    rec.violation(f"surface:{label}_nature_differs", feats, case,
                                  f"{cname}.{name}: client {cm[name].get('nature')} vs {label} {om[name].get('nature')}/{om[name].get('ret')}")
        for name, cnt in (c.get("defs_in_source") or {}).items():
            if cnt > 1:
                rec.violation("surface:duplicate_method_definition", feats, case, f"{cname}.{name} defined {cnt}x")
        conf = surface.get("conformance", {}).get(cname, {})
        for k in ("client_isinstance", "mock_isinstance"):
            if k in conf:
                rec.count("isinstance_checks")
                if conf[k] is not True:
                    rec.violation(f"surface:{k}_false", feats, case, f"{cname}: {conf}")
        if "error" in conf:
            rec.violation("surface:conformance_error", feats, case, f"{cname}: {conf['error']}")
    for mc in surface.get("mock_calls", []):
        rec.count("mock_methods_called")
        if mc["result"] != "NotImplementedError":
            rec.violation("mock:does_not_raise_NotImplementedError", feats, case, json.dumps(mc))
    a, ma = surface.get("api_client"), surface.get("mock_api_client")
    if a and ma:
        if set(a["properties"]) != set(ma["properties"]):
            rec.violation("surface:mock_api_client_properties_differ", feats, case,
                          f"APIClient {sorted(a['properties'])} vs MockAPIClient {sorted(ma['properties'])}")
    elif a and not ma:
        rec.violation("surface:mock_api_client_missing", feats, case, "")
    for e in surface.get("errors", []):
        rec.count("surface_import_errors_diagnostic")


def mk_doc(ctx: Ctx, allow: set[str]):
    rng = ctx.rng
    if "multi_request_media" in allow and rng.random() < 0.5:
        # overload-heavy: several multi-content-type operations with different JSON bodies in ONE tag
        d = specgen.generate(rng, allow=allow, prof={"ops": (3, 6), "methods": ["post", "put", "patch"], "p_body": 1.0,
                                                     "body_kinds": ["json"], "p_multi_media": 0.8, "single_tag": True,
                                                     "schemas": (4, 7), "p_param": 0.5})
        d.features.add("overload_heavy")
        return d
    d = specgen.generate(rng, allow=allow, prof={"ops": (2, 7), "p_param": 0.8, "p_stream": 0.25, "stream_kinds": ["sse", "binary"],
                                                 "p_multi_media": 0.0 if "multi_request_media" not in allow else 0.5,
                                                 "opid_shapes": True, "ntags": 3,
                                                 "p_errors": 0.6, "p_error_stream": 0.35,
                                                 "p_multi_response_media": 0.2, "json_media_variants": True, "p_nullable_response": 0.2, "p_component_refs": 0.3, "p_range_2xx": 0.08})
    if rng.random() < 0.3:
        specgen.add_exotic_media_operations(rng, d)
    # tag spelling variants: rewrite some tags
    if rng.random() < 0.4:
        for path, item in d.doc["paths"].items():
            for meth, op in item.items():
                if isinstance(op, dict) and "tags" in op and rng.random() < 0.6:
                    op["tags"] = list(rng.choice(TAG_VARIANTS))
                    if rng.random() < 0.3:
                        # one operation listing two spellings of the same tag (word splits differ); any order
                        pair = list(rng.choice([["datasources", "DataSources"], ["petstore", "petStore"], ["user_admin", "User Admin", "useradmin"],
                                                ["data_sources", "datasources"], ["PETS", "pets"]]))
                        rng.shuffle(pair)
                        op["tags"] = pair
                        d.features.add("one_operation_two_tag_spellings")
                    elif rng.random() < 0.15:
                        # a second tag that no operation lists first: it must still get a client on APIClient
                        op["tags"] = [op["tags"][0], rng.choice(["Admin Only", "audit-log", "zz_internal"])]
                        d.features.add("tag_never_listed_first")
        d.features.add("tag_spelling_variants")
    return d


TRIGGERS: list[set[str]] = [{"multi_tag"}, {"multi_request_media"}]


def run_batch(ctx: Ctx, items: list[dict]) -> None:
    rec = ctx.rec
    root = ctx.scratch.new("proj")
    acc = []
    for it in items:
        d = it["doc"]
        pkg = f"c{it['n']}"
        it["pkg"] = pkg
        case = {"doc": d.doc}
        it["case"] = case
        res = genrun.generate(d.doc, root, pkg, None, spec_path=genrun.write_spec(d.doc, root / f"spec{it['n']}"))
        nt = len(d.ops) >= 2 or bool(d.features & {"multi_tag", "multi_request_media", "stream_sse", "stream_binary"})
        if not res.ok:
            rec.case(case, nontrivial=False)
            rec.count("generations_rejected")
            continue
        rec.case(case, nontrivial=nt)
        if "multi_tag" in d.features:
            rec.count("docs_with_multi_tag")
        if "multi_request_media" in d.features:
            rec.count("docs_with_overloads")
        if d.features & {"stream_sse", "stream_binary"}:
            rec.count("docs_with_streaming")
        if "streaming_error_response" in d.features:
            rec.count("docs_with_streaming_non_primary_response")
        acc.append(it)
    if not acc:
        return
    job = {"root": str(root), "packages": [{"pkg": i["pkg"], "core": i["pkg"] + ".core"} for i in acc], "actions": ["surface"]}
    out = genrun.run_probe(job, root / "probe")
    if "probe_error" in out:
        for it in acc:
            o = genrun.run_probe(dict(job, packages=[{"pkg": it["pkg"], "core": it["pkg"] + ".core"}]), root / f"p{it['n']}")
            if "probe_error" in o:
                rec.violation("probe:crash", sorted(it["doc"].features & it["trigger"]), it["case"], o["probe_error"][-400:])
            else:
                judge(o["packages"][it["pkg"]]["surface"], rec, sorted(it["doc"].features & it["trigger"]), it["case"])
        return
    for it in acc:
        judge(out["packages"][it["pkg"]]["surface"], rec, sorted(it["doc"].features & it["trigger"]), it["case"])
    if len(rec.samples) < 2:
        it = acc[0]
        s = out["packages"][it["pkg"]]["surface"]
        rec.sample({"document_paths": it["doc"].doc["paths"], "clients": {k: sorted(v["methods"]) for k, v in s["clients"].items()},
                    "mock_calls": s.get("mock_calls", [])[:6]})


def run_shard(ctx: Ctx) -> None:
    common.use_repo()
    total = 20 if ctx.quick else 350
    bs = 10
    for b in range(0, total, bs):
        items = []
        for k in range(bs):
            trig: set[str] = set()
            r = ctx.rng.random()
            if r < 0.3:
                trig = TRIGGERS[0]
            elif r < 0.6:
                trig = TRIGGERS[1]
            items.append({"doc": mk_doc(ctx, trig), "n": ctx.shard * 100000 + b + k, "trigger": trig})
        run_batch(ctx, items)
    run_shapes(ctx)


def run_shapes(ctx: Ctx) -> None:
    """The exhaustive shape catalogue as INLINE request bodies and response bodies: every wrapper(wrapper(leaf)) type
    expression appears in a method signature; client, Protocol and mock must spell it identically."""
    chunks = shapes.chunked(2 if ctx.quick else 3, 20)
    items = []
    for ci, chunk in enumerate(chunks):
        if not ctx.mine(ci):
            continue
        for kind, mk in (("response", shapes.response_document), ("request", shapes.request_document)):
            if ctx.quick and (ci // ctx.nshards + (kind == "request")) % 2:
                continue        # quick tier: every chunk in one of the two positions, alternating
            sd = mk(chunk)
            sd.features = set(getattr(sd, "features", set())) | {"shapes", f"shapes_as_{kind}"}
            items.append({"doc": sd, "n": ctx.shard * 100000 + 50000 + 2 * ci + (kind == "request"), "trigger": {"shapes"}})
            ctx.rec.count("shape_documents")
    for i in range(0, len(items), 8):
        run_batch(ctx, items[i:i + 8])


def replay(ctx: Ctx, file: dict) -> None:
    common.use_repo()
    d = specgen.Doc(file["case"]["doc"], {}, [{}, {}], set(file.get("features", [])))
    run_batch(ctx, [{"doc": d, "n": 1, "trigger": set(file.get("features", []))}])
