"""C12 — generated clients are self-contained (no dependency on the generator).

Monitors per emitted package: (1) AST walk of EVERY emitted file for Import / ImportFrom at any depth (top level, nested
in functions, under TYPE_CHECKING): the target must be the standard library, httpx, cattrs, the emitted package or its
designated core; (2) fresh-interpreter probe with `pyopenapi_gen` blocked on the meta path: every module imports, and the
audit hook's (importer file, imported top-level) events obey the same policy; models are round-tripped there as well so
imports nested in generated functions really execute; (3) sha256 of each runtime file in the emitted core == the file
shipped in /repo/src/pyopenapi_gen/core.
"""
from __future__ import annotations

import ast
import hashlib
import json
import sys
from pathlib import Path

from .. import common, genrun, specgen
from ..common import Ctx
from . import c01

LEVEL = "exploration"
SHARDS = {"quick": 16, "thorough": 16}
FLOOR = {"quick": 100, "thorough": 2000}
REQUIRED_COUNTERS = ["import_statements_scanned", "files_scanned", "runtime_files_compared", "import_audit_events",
                     "modules_imported_generator_blocked", "nested_imports_scanned", "typed_map_wrappers_exercised", "stale_core_scenarios",
                     "relative_imports_resolved", "runtime_calls_generator_blocked",
                     "foreign_host_encoding_scenarios"]
RULE = ("C01's document grammar biased towards rarely emitted templates (typed/untyped additionalProperties wrappers, unions, "
        "enums) x 9 layouts; case = (document, layout); non-trivial = accepted, >=1 operation, >=2 schemas joined by a reference")
ASSUMPTIONS = ["standard library = sys.stdlib_module_names of the probe interpreter (3.12)"]

RUNTIME = ["http_transport.py", "exceptions.py", "streaming_helpers.py", "pagination.py", "cattrs_converter.py", "utils.py",
           "auth/base.py", "auth/plugins.py"]
ALLOWED_THIRD = {"httpx", "cattrs"}


def scan_file(path: Path, pkg_top: str, core_top: str, rec, rel: str):
    """Yield (level, top-level module, lineno, nested) for every import statement."""
    try:
        tree = ast.parse(path.read_text())
    except SyntaxError:
        return
    parents = {}
    for node in ast.walk(tree):
        for ch in ast.iter_child_nodes(node):
            parents[ch] = node
    for node in ast.walk(tree):
        if isinstance(node, (ast.Import, ast.ImportFrom)):
            p, nested = parents.get(node), False
            while p is not None:
                if isinstance(p, (ast.FunctionDef, ast.AsyncFunctionDef, ast.If, ast.Try, ast.ClassDef, ast.With)):
                    nested = True
                p = parents.get(p)
            rec.count("import_statements_scanned")
            if nested:
                rec.count("nested_imports_scanned")
            if isinstance(node, ast.Import):
                for a in node.names:
                    yield 0, a.name.split(".")[0], node.lineno, nested
            else:
                if node.level:
                    # a relative import must land on a module / package that was emitted too
                    base = path.parent
                    for _ in range(node.level - 1):
                        base = base.parent
                    tgt = base.joinpath(*(node.module.split(".") if node.module else []))
                    rec.count("relative_imports_resolved")
                    if not (tgt.with_suffix(".py").exists() or (tgt / "__init__.py").exists()):
                        yield node.level, "<missing>" + "." * node.level + (node.module or ""), node.lineno, nested
                    else:
                        yield node.level, "", node.lineno, nested
                else:
                    yield 0, (node.module or "").split(".")[0], node.lineno, nested


def judge(top: str, level: int, pkg_top: str, core_top: str) -> bool:
    if level:
        return not top.startswith("<missing>")
    return top in sys.stdlib_module_names or top in ALLOWED_THIRD or top in (pkg_top, core_top)


def run_batch(ctx: Ctx, batch: list[dict]) -> None:
    rec = ctx.rec
    root = ctx.scratch.new("proj")
    accepted = []
    for it in batch:
        d: specgen.Doc = it["doc"]
        pkg_t, core_t = c01.LAYOUTS[it["layout"]]
        pkg = pkg_t.format(n=it["n"])
        core = core_t.format(n=it["n"]) if core_t else None
        it["pkg"], it["core"] = pkg, core
        case = {"doc": d.doc, "layout": [pkg_t, core_t], "strategy": it["strategy"]}
        # what was generated earlier in THIS process (generator state can leak from one generation into the next): attached to
        # foreign-import violations only, so that their replay re-runs the same sequence
        earlier = [{"doc": b["doc"].doc, "layout": list(c01.LAYOUTS[b["layout"]]), "strategy": b["strategy"], "n": b["n"]}
                   for b in batch[:batch.index(it)]]
        it["case"] = case
        res = genrun.generate(d.doc, root, pkg, core, force=True, strategy=it["strategy"],
                              spec_path=genrun.write_spec(d.doc, root / f"spec{it['n']}"))
        if not res.ok:
            rec.count("generations_rejected")
            rec.case(case, nontrivial=False)
            continue
        rec.case(case, nontrivial=d.nontrivial())
        rec.seen("layouts", f"{pkg_t}|{core_t}")
        core_pkg = core or pkg + ".core"
        pkg_dir = root.joinpath(*pkg.split("."))
        core_dir = root.joinpath(*core_pkg.split("."))
        feats = ["always"]
        files = list(pkg_dir.rglob("*.py")) + ([] if str(core_dir).startswith(str(pkg_dir)) else list(core_dir.rglob("*.py")))
        for f in files:
            rec.count("files_scanned")
            rel = str(f.relative_to(core_dir)) if str(f).startswith(str(core_dir)) else str(f.relative_to(pkg_dir))
            relk = ("core/" + rel) if str(f).startswith(str(core_dir)) else (
                "models/<model>" if rel.startswith("models/") and not rel.endswith("__init__.py") else rel)
            for level, top, lineno, nested in scan_file(f, pkg.split(".")[0], core_pkg.split(".")[0], rec, rel):
                if not judge(top, level, pkg.split(".")[0], core_pkg.split(".")[0]):
                    vcase = case if top == "black" else dict(case, earlier_in_process=earlier, n=it["n"])
                    rec.violation(f"ast:foreign_import:{relk}:{top}", feats + (["nested_import"] if nested else []), vcase,
                                  f"{f}:{lineno} imports {top!r} ({'nested' if nested else 'top-level'})")
        # byte identity of the runtime files
        for r in RUNTIME:
            src = common.REPO_SRC / "pyopenapi_gen" / "core" / r
            dst = core_dir / r
            rec.count("runtime_files_compared")
            if not dst.exists():
                rec.violation(f"runtime:missing:{r}", feats, case, str(dst))
            elif hashlib.sha256(dst.read_bytes()).digest() != hashlib.sha256(src.read_bytes()).digest():
                rec.violation(f"runtime:bytes_differ:{r}", feats, case, f"{dst} != {src}")
        accepted.append(it)
    if not accepted:
        return
    # fresh interpreter, generator blocked; round-trip one instance per typed-map wrapper / model so nested imports execute
    for it in accepted:
        d = it["doc"]
        rts = []
        for name, e in d.sexp.items():
            if e["kind"] != "object":
                continue
            for pn, pe in e["props"].items():
                if pe["kind"] == "map" and pe["values"].get("kind") == "ref":
                    rts.append({"name": name, "prop": pn})
        it["maps"] = rts
    job = {"root": str(root), "packages": [{"pkg": i["pkg"], "core": i["core"] or i["pkg"] + ".core"} for i in accepted],
           "actions": ["import_all", "models", "exercise_models", "calls"],
           # error paths of the copied runtime run too (imports nested in functions only execute when reached)
           "calls": [{"id": f"{seg}-{i}", "seg": seg, "http": "*", "args": [], "plan": plan}
                     for seg in ("op1", "op2") for i, plan in enumerate([{"status": 404, "content_hex": ""}, {"status": 500, "text": "boom"},
                                                                         {"status": 401, "json": {"error": "x"}}, {"status": 200, "json": {}}])]}
    out = genrun.run_probe(job, root / "probe")
    if "probe_error" in out:
        for it in accepted:
            o = genrun.run_probe(dict(job, packages=[{"pkg": it["pkg"], "core": it["core"] or it["pkg"] + ".core"}]),
                                 root / f"probe{it['n']}")
            if "probe_error" in o:
                rec.violation("probe:crash", ["always"], it["case"], o["probe_error"][-500:])
        return
    ia = out["import_all"]
    rec.count("modules_imported_generator_blocked", ia["modules"])
    if out.get("generator_importable"):
        rec.inconclusive.append("generator was importable inside the probe: blocker ineffective")
    tops = {}
    for it in accepted:
        tops[it["pkg"].split(".")[0]] = it
        tops[(it["core"] or it["pkg"]).split(".")[0]] = it
    for fn, top in ia["import_events"]:
        rec.count("import_audit_events")
        it = tops.get(fn.split("/")[0])
        if it is None:
            continue
        core_pkg = it["core"] or it["pkg"] + ".core"
        if not judge(top, 0, it["pkg"].split(".")[0], core_pkg.split(".")[0]):
            relk = "core/" + fn.split("/core/")[-1] if "/core/" in fn else fn.split("/")[-1]
            rec.violation(f"audit:foreign_import:{relk}:{top}", ["always"], it["case"], f"{fn} imported {top!r} at run time")
    for f in ia["failures"]:
        it = tops.get(f["module"].split(".")[0])
        if it is None:
            continue
        if "pyopenapi_gen" in f.get("msg", "") or f["type"] == "ModuleNotFoundError" and "vmon" in f.get("msg", ""):
            rec.violation("import:needs_generator", ["always"], it["case"], json.dumps(f)[:500])
        # other import failures are C01's business
    for pkgname, po in out["packages"].items():
        for cid, r in ((po.get("calls") or {}).get("results") or {}).items():
            exc = ((r.get("outcome") or {}).get("exc") or r.get("exc") or {})
            if "outcome" in r:
                rec.count("runtime_calls_generator_blocked")
            else:
                rec.seen("runtime_call_errors_diagnostic", str(r.get("error")) + ":" + str((r.get("exc") or {}).get("type")))
            if exc.get("type") in ("ModuleNotFoundError", "ImportError"):
                it = tops.get(pkgname.split(".")[0])
                rec.violation("runtime:import_error_during_call", ["always"], it["case"] if it else {}, json.dumps(exc)[:500])
        ex = po.get("exercise_models") or {}
        rec.count("typed_map_wrappers_exercised", ex.get("wrappers", 0))
        rec.count("models_exercised", ex.get("models", 0))
        for prob in ex.get("generator_needed", []):
            it = tops.get(pkgname.split(".")[0])
            rec.violation("runtime:needs_generator", ["always"], it["case"] if it else {}, json.dumps(prob)[:500])
    if len(rec.samples) < 2:
        rec.sample({"document": accepted[0]["doc"].doc, "layout": [accepted[0]["pkg"], accepted[0]["core"]],
                    "import_events_sample": ia["import_events"][:12]})


def stale_core_scenario(ctx: Ctx, n: int) -> None:
    """A core directory left by an earlier generation (another client sharing it, or an older release) must be brought
    back to the shipped runtime byte for byte by the next generation that uses it."""
    rec = ctx.rec
    root = ctx.scratch.new("stale")
    for (pkg_a, pkg_b, core) in (("acme.client_a", "acme.client_b", "acme.shared.core"), ("client_a", "client_a", None), ("one.a", "two.b", "sharedcore")):
        d1 = specgen.generate(ctx.rng, prof={"schemas": (2, 3), "ops": (1, 2)})
        d2 = specgen.generate(ctx.rng, prof={"schemas": (2, 3), "ops": (1, 2)})
        sub = root / (core or "embedded").replace(".", "_")
        sub.mkdir(parents=True, exist_ok=True)
        r1 = genrun.generate(d1.doc, sub, pkg_a, core, force=True, spec_path=genrun.write_spec(d1.doc, sub / "s1"))
        if not r1.ok:
            continue
        core_dir = sub.joinpath(*(core or pkg_a + ".core").split("."))
        for rf in ("http_transport.py", "auth/plugins.py", "utils.py"):
            f = core_dir / rf
            f.write_text(f.read_text() + "\n# left over from an older release\nSTALE_MARKER = 1\n")
        r2 = genrun.generate(d2.doc, sub, pkg_b, core, force=True, spec_path=genrun.write_spec(d2.doc, sub / "s2"))
        case = {"scenario": "stale_core", "packages": [pkg_a, pkg_b], "core": core, "doc": d2.doc}
        rec.case(case, nontrivial=True)
        rec.count("stale_core_scenarios")
        if not r2.ok:
            continue
        for r in RUNTIME:
            rec.count("runtime_files_compared")
            src, dst = common.REPO_SRC / "pyopenapi_gen" / "core" / r, core_dir / r
            if not dst.exists() or dst.read_bytes() != src.read_bytes():
                rec.violation(f"runtime:stale_core_not_refreshed:{r}", ["always", "stale_core"], case, f"{dst} differs from the shipped {r} after regeneration")


def foreign_host_encoding_scenario(ctx: Ctx) -> None:
    """Generation in a fresh process that behaves like a host whose default text encoding is ISO-8859-1: the runtime files
    must still arrive byte for byte (reader and writer have to agree on how they treat the bytes)."""
    import os
    import subprocess

    rec = ctx.rec
    root = ctx.scratch.new("hostenc")
    d = specgen.generate(ctx.rng, prof={"schemas": (2, 3), "ops": (1, 2)})
    spec = genrun.write_spec(d.doc, root / "spec")
    for pkg, core in (("client_l1", None), ("acme.client_l1", "acme.shared_l1.core")):
        args = {"spec": str(spec), "root": str(root), "pkg": pkg, "core": core, "force": True, "default_text_encoding": "iso-8859-1"}
        env = dict(os.environ, PYTHONPATH=str(common.VERIF_ROOT), PYTHONHASHSEED="0")
        try:
            r = subprocess.run([common.PY, "-m", "vmon.gen_cli", json.dumps(args)], capture_output=True, text=True, timeout=300, env=env)
            res = json.loads(r.stdout.strip().splitlines()[-1])
        except Exception as e:  # noqa
            rec.count("host_encoding_runs_failed_diagnostic")
            rec.seen("host_encoding_errors", repr(e)[:120])
            continue
        case = {"scenario": "foreign_host_encoding", "encoding": "iso-8859-1", "layout": [pkg, core], "doc": d.doc}
        rec.case(case, nontrivial=True)
        rec.count("foreign_host_encoding_scenarios")
        if not res.get("ok"):
            rec.count("generations_rejected")
            rec.seen("host_encoding_errors", str(res.get("error"))[:120])
            continue
        core_dir = root.joinpath(*(core or pkg + ".core").split("."))
        for rf in RUNTIME:
            rec.count("runtime_files_compared")
            src, dst = common.REPO_SRC / "pyopenapi_gen" / "core" / rf, core_dir / rf
            if not dst.exists() or dst.read_bytes() != src.read_bytes():
                rec.violation(f"runtime:bytes_differ_on_non_utf8_host:{rf}", ["always", "foreign_host_encoding"], case,
                              f"{dst} is not byte-identical to the shipped {rf} when the default text encoding is ISO-8859-1")


def postprocessed_scenario(ctx: Ctx) -> None:
    """The default mode: post-processing ON (ruff fixes imports and reformats every file it is handed, in child processes).
    The runtime modules in the core must STILL be the shipped bytes, and the package must still be self-contained."""
    import subprocess
    from . import c10

    rec = ctx.rec
    root = ctx.scratch.new("ppcore")
    d = specgen.generate(ctx.rng, prof={"schemas": (2, 4), "ops": (2, 3)})
    spec = genrun.write_spec(d.doc, root / "spec")
    for pkg, core in (("client_pp", None), ("acme.client_pp", "acme.shared_pp.core")):
        case = {"scenario": "postprocessed", "layout": [pkg, core], "doc": d.doc}
        try:
            r = subprocess.run(c10.cli_cmd(spec, str(root), pkg, core, True), cwd=str(root), env=c10.cli_env(ctx), capture_output=True, text=True, timeout=900)
        except subprocess.TimeoutExpired:
            rec.inconclusive.append("post-processed generation hit the watchdog")
            continue
        rec.case(case, nontrivial=True)
        rec.count("postprocessed_generations")
        if r.returncode != 0:
            rec.count("generations_rejected")
            continue
        core_dir = root.joinpath(*(core or pkg + ".core").split("."))
        for rf in RUNTIME:
            rec.count("runtime_files_compared")
            src, dst = common.REPO_SRC / "pyopenapi_gen" / "core" / rf, core_dir / rf
            if not dst.exists() or dst.read_bytes() != src.read_bytes():
                rec.violation(f"runtime:bytes_differ_after_postprocessing:{rf}", ["always", "postprocess_on"], case,
                              f"{dst} is not byte-identical to the shipped {rf} after the default post-processing")


def run_shard(ctx: Ctx) -> None:
    common.use_repo()
    if ctx.shard in (2, 3) or not ctx.quick:
        postprocessed_scenario(ctx)
    stale_core_scenario(ctx, ctx.shard)
    if ctx.shard < 2:
        foreign_host_encoding_scenario(ctx)
    total = 30 if ctx.quick else 700
    bs = 10
    for b in range(0, total, bs):
        items = []
        for k in range(bs):
            d = specgen.generate(ctx.rng, prof={"p_union": 0.35, "max_props": 7, "schemas": (4, 8)})
            if k % 3 == 1:
                specgen.add_exotic_media_operations(ctx.rng, d)
            items.append({"doc": d, "layout": ctx.rng.randrange(len(c01.LAYOUTS)), "strategy": "operationId",
                          "n": ctx.shard * 100000 + b + k})
        run_batch(ctx, items)


def replay(ctx: Ctx, file: dict) -> None:
    common.use_repo()
    c = file["case"]
    if c.get("scenario") == "foreign_host_encoding":
        foreign_host_encoding_scenario(ctx)
        return
    if c.get("scenario") == "postprocessed":
        postprocessed_scenario(ctx)
        return
    if c.get("scenario") == "stale_core":
        stale_core_scenario(ctx, 0)
        return
    def idx(layout):
        li = [i for i, l in enumerate(c01.LAYOUTS) if [l[0], l[1]] == list(layout)]
        return li[0] if li else 0
    items = [{"doc": specgen.Doc(b["doc"], {}, [], set()), "layout": idx(b["layout"]), "strategy": b.get("strategy", "operationId"), "n": b["n"]}
             for b in c.get("earlier_in_process", [])]
    items.append({"doc": specgen.Doc(c["doc"], {}, [], set()), "layout": idx(c["layout"]), "strategy": c.get("strategy", "operationId"),
                  "n": c.get("n", 1)})
    run_batch(ctx, items)
