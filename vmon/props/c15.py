"""C15 — spec text can never alter the structure of generated code.

Position x payload matrix driven through the real generator (in-process; only ast work on the emitted files):
 (a) every emitted .py parses (warnings captured, an invalid-escape SyntaxWarning is recorded, not a failure);
 (b) the AST skeleton of every file (node types and arity, constants and identifier spellings blanked) equals the skeleton
     obtained with benign text in the same position;
 (c) literals that carry meaning (enum member values, Meta wire keys, query/header names, string defaults, discriminator
     values) evaluate to exactly the original string.
"""
from __future__ import annotations

import ast
import copy
import hashlib
import warnings
from pathlib import Path

from .. import common, genrun
from ..common import Ctx

LEVEL = "exploration"
SHARDS = {"quick": 16, "thorough": 16}
FLOOR = {"quick": 400, "thorough": 8000}
REQUIRED_COUNTERS = ["cells_visited", "files_parsed", "skeletons_compared", "meaning_literals_checked", "positions", "payloads"]
RULE = ("positions = info title/description, schema description (object, enum, alias, map wrapper), property description, property name, "
        "enum value, string default, parameter name/description, operation summary/description, tag, response description, discriminator "
        "mapping value, server url x payload dictionary (quotes, triple quotes, backslashes and escape-like sequences, newlines, CR, tabs, "
        "braces, #, %s, NUL, non-ASCII, would-be injection) + random Unicode strings; case = (position, payload); non-trivial = payload "
        "contains a character outside [A-Za-z0-9 ]")
ASSUMPTIONS = ["skeleton comparison blanks constants and identifier spellings: it detects added/removed statements, classes, functions, arguments"]

BENIGN = "benign text"
PAYLOADS = {
    "dquote": 'say "hi"', "squote": "it's", "triple_dquote": 'a """ b', "triple_squote": "a ''' b", "trailing_backslash": "ends with \\",
    "backslash_mid": "a\\b", "newline": "line1\nline2", "cr": "line1\rline2", "crlf": "line1\r\nline2", "tab": "a\tb",
    "esc_x": "bad \\x escape", "esc_N": "bad \\N{ escape", "esc_u": "bad \\u12 escape", "lbrace": "a { b", "rbrace": "a } b", "braces": "a {x} b",
    "hash": "a # b", "percent_s": "a %s b", "nul": "a\x00b", "non_ascii": "héllo 日本 😀", "injection": '"""\nimport os\nos.system("x")\n"""',
    "quote_end": 'ends with "', "backslash_quote": 'a\\"b', "newline_hash": "x\n# y",
    # unbroken tokens longer than the docstring wrap width: the writer must not cut an escape sequence in two
    "long_token_x": "p" * 61 + "\\x41" * 30, "long_token_N": "q" * 70 + "\\N{DASH}" * 12, "long_token_nul": "r" * 83 + "\x00" * 12,
    "long_token_backslashes": "s" * 79 + "\\" * 40, "long_token_quotes": "t" * 84 + '"""' * 10,
    # text that looks like code: generated files are post-processed line by line in places (Protocol / mock derivation),
    # so a docstring line must never be taken for a statement
    "code_async_def": "async def injected(self, x: int = 1) -> None:", "code_def": "def injected(self):", "code_overload": "@overload",
    "code_class": "class Injected:", "code_return": "    return 1", "code_import": "from os import system", "code_decorator_def": "@staticmethod\ndef injected():\n    pass",
    "code_triple_then_def": '"""\nasync def injected(self):\n    """', "code_wrapped_def": "w" * 70 + " async def injected(self) -> None: pass " + "z" * 30,
}

# character classes an escaping routine may treat by separate rules: every unordered pair is placed in one string, because
# a rule chosen for one class (e.g. "contains a line separator -> use another encoder") can mistreat the other
CLASSES = {"dq": '"', "bs": "\\", "nl": "\n", "cr": "\r", "nul": "\x00", "lsep": "\u2028", "psep": "\u2029", "nel": "\x85",
           "astral": "\U0001f600", "bmp": "\u65e5", "tab": "\t", "c1": "\x9b", "sq": "'", "brace": "{"}
PAIRS = {f"pair_{a}_{b}": f"a{ca}b{cb}c" for (a, ca), (b, cb) in __import__("itertools").combinations(CLASSES.items(), 2)}
PAIR_POSITIONS = ["enum_value", "property_name", "param_name_query", "string_default", "discriminator_value", "property_description",
                  "operation_summary"]

# positions whose text must come back as an exact string constant somewhere in the emitted package
MEANING = {"enum_value", "property_name", "param_name_query", "param_name_header", "string_default", "discriminator_value",
           "request_media_type", "discriminator_property_name", "inline_enum_value_property"}   # (an inline enum on a parameter is typed by its base type: no literal)   # the Content-Type of a raw body is sent from a literal


def base_doc() -> dict:
    R = lambda n: {"$ref": f"#/components/schemas/{n}"}  # noqa
    return {"openapi": "3.0.3", "info": {"title": "API", "version": "1", "description": "d"}, "servers": [{"url": "https://api.test"}],
            "paths": {"/op1/items/{itemId}": {"get": {"operationId": "getItem", "tags": ["items"], "summary": "s", "description": "d",
                "parameters": [{"name": "itemId", "in": "path", "required": True, "schema": {"type": "string"}, "description": "pd"},
                               {"name": "q", "in": "query", "schema": {"type": "string"}, "description": "qd"},
                               {"name": "X-H", "in": "header", "schema": {"type": "string"}}],
                "responses": {"200": {"description": "rd", "content": {"application/json": {"schema": R("Item")}}}, "404": {"description": "nf"}}}},
                      "/op2/pets": {"post": {"operationId": "createPet", "tags": ["items"], "requestBody": {"required": True, "content": {
                          "application/json": {"schema": R("Pet")}}}, "responses": {"201": {"description": "ok", "content": {"application/json": {"schema": R("Pet")}}}}}}},
            "components": {"schemas": {
                "Item": {"type": "object", "description": "item", "required": ["id"], "properties": {
                    "id": {"type": "integer", "description": "pid"}, "label": {"type": "string", "default": "dflt", "description": "pl"},
                    "colour": R("Colour"), "attrs": R("AttrMap"), "tags": R("TagList")}},
                "Colour": {"type": "string", "description": "enum d", "enum": ["red", "green"]},
                "TagList": {"type": "array", "description": "alias d", "items": {"type": "string"}},
                "AttrMap": {"type": "object", "description": "map d", "additionalProperties": R("Colour")},
                "Cat": {"type": "object", "required": ["kind"], "properties": {"kind": {"type": "string"}, "lives": {"type": "integer"}}},
                "Dog": {"type": "object", "required": ["kind"], "properties": {"kind": {"type": "string"}, "bark": {"type": "integer"}}},
                "Pet": {"oneOf": [R("Cat"), R("Dog")], "description": "union d",
                        "discriminator": {"propertyName": "kind", "mapping": {"cat": "#/components/schemas/Cat", "dog": "#/components/schemas/Dog"}}}}}}


def place(doc: dict, position: str, text: str) -> dict:
    d = copy.deepcopy(doc)
    s = d["components"]["schemas"]
    get = d["paths"]["/op1/items/{itemId}"]["get"]
    if position == "info_title":
        d["info"]["title"] = text
    elif position == "info_description":
        d["info"]["description"] = text
    elif position == "schema_description_object":
        s["Item"]["description"] = text
    elif position == "schema_description_enum":
        s["Colour"]["description"] = text
    elif position == "schema_description_alias":
        s["TagList"]["description"] = text
    elif position == "schema_description_map":
        s["AttrMap"]["description"] = text
    elif position == "schema_description_union":
        s["Pet"]["description"] = text
    elif position == "property_description":
        s["Item"]["properties"]["label"]["description"] = text
    elif position == "property_name":
        s["Item"]["properties"][text] = {"type": "string"}
    elif position == "enum_value":
        s["Colour"]["enum"] = ["red", text]
    elif position == "string_default":
        s["Item"]["properties"]["label"]["default"] = text
    elif position == "param_name_query":
        get["parameters"][1]["name"] = text
    elif position == "param_name_header":
        get["parameters"][2]["name"] = text
    elif position == "param_description":
        get["parameters"][1]["description"] = text
    elif position == "operation_summary":
        get["summary"] = text
    elif position == "operation_description":
        get["description"] = text
    elif position == "tag":
        get["tags"] = [text]
    elif position == "response_description":
        get["responses"]["200"]["description"] = text
    elif position == "error_response_description":
        get["responses"]["404"]["description"] = text
    elif position == "discriminator_value":
        m = s["Pet"]["discriminator"]["mapping"]
        m[text] = m.pop("dog")
    elif position == "server_url":
        d["servers"][0]["url"] = "https://api.test/" + text
    elif position == "request_body_description":
        d["paths"]["/op2/pets"]["post"]["requestBody"]["description"] = text
    elif position == "info_version":
        d["info"]["version"] = text
    elif position == "operation_id":
        get["operationId"] = text
    elif position == "request_media_type":
        c = d["paths"]["/op2/pets"]["post"]["requestBody"]["content"]
        c["application/x-" + text] = c.pop("application/json")
    elif position == "response_media_type_second":
        # two content types on one response: the generated handler compares the Content-Type header with literals
        get["responses"]["200"]["content"]["text/x-" + text] = {"schema": {"type": "string"}}
        get["responses"]["200"]["content"]["text/plain"] = {"schema": {"type": "string"}}   # (the last one is the fallback branch)
    elif position == "response_media_type":
        c = get["responses"]["200"]["content"]
        c["application/json; note=" + text] = c.pop("application/json")
    elif position == "schema_title":
        s["Item"]["title"] = text
    elif position == "property_title":
        s["Item"]["properties"]["label"]["title"] = text
    elif position == "discriminator_property_name":
        for v in ("Cat", "Dog"):
            s[v]["properties"][text] = s[v]["properties"].pop("kind")
            s[v]["required"] = [text]
        s["Pet"]["discriminator"]["propertyName"] = text
    elif position == "root_tag_description":
        d["tags"] = [{"name": "items", "description": text}]
    elif position == "external_docs_description":
        get["externalDocs"] = {"url": "https://docs.test", "description": text}
        d["externalDocs"] = {"url": "https://docs.test", "description": text}
    elif position == "param_string_default":
        get["parameters"][1]["schema"]["default"] = text
    elif position == "inline_enum_value_property":
        s["Item"]["properties"]["mode"] = {"type": "string", "enum": ["plain", text]}
    elif position == "inline_enum_value_param":
        get["parameters"][1]["schema"] = {"type": "string", "enum": ["plain", text]}
    else:
        raise KeyError(position)
    return d


POSITIONS = ["info_title", "info_description", "schema_description_object", "schema_description_enum", "schema_description_alias",
             "schema_description_map", "schema_description_union", "property_description", "property_name", "enum_value", "string_default",
             "param_name_query", "param_name_header", "param_description", "operation_summary", "operation_description", "tag",
             "response_description", "error_response_description", "discriminator_value", "server_url",
             "request_body_description", "info_version", "operation_id", "request_media_type", "response_media_type", "response_media_type_second",
             "schema_title", "property_title", "discriminator_property_name", "root_tag_description", "external_docs_description",
             "param_string_default", "inline_enum_value_property", "inline_enum_value_param"]


def skeleton(tree: ast.AST) -> str:
    def sk(n) -> str:
        if isinstance(n, ast.Constant):
            return "C"
        if isinstance(n, ast.Name):
            return "N"
        if isinstance(n, ast.Expr) and isinstance(n.value, ast.Constant):
            return "Doc"
        parts = []
        for f, v in ast.iter_fields(n):
            if isinstance(v, list):
                items = [sk(x) for x in v if isinstance(x, ast.AST)]
                # the statement SET of a class / module body and the entries of a dict display are compared as multisets:
                # declarations are emitted sorted by derived name, so benign vs hostile text may legitimately reorder them
                if (isinstance(n, (ast.ClassDef, ast.Module)) and f == "body") or isinstance(n, ast.Dict):
                    items.sort()
                parts.append(f"{f}[" + ",".join(items) + "]")
            elif isinstance(v, ast.AST):
                parts.append(f"{f}:" + sk(v))
        return type(n).__name__ + "(" + ";".join(parts) + ")"

    return hashlib.sha256(sk(tree).encode()).hexdigest()[:16]


def analyse(root: Path, pkg: str) -> tuple[dict[str, str], dict[str, set[str]], list[tuple[str, str]], int]:
    """-> (file -> skeleton hash, file -> string constants, [(file, syntax error)], invalid-escape warnings)"""
    skel, consts, errors, nwarn = {}, {}, [], 0
    base = root / pkg
    for f in sorted(base.rglob("*.py")):
        rel = str(f.relative_to(base))
        if rel.startswith("core/") and not rel.endswith("exception_aliases.py"):
            continue
        src = f.read_bytes().decode("utf-8", "surrogatepass")
        try:
            with warnings.catch_warnings(record=True) as w:
                warnings.simplefilter("always")
                tree = ast.parse(src)
            nwarn += sum(1 for x in w if issubclass(x.category, SyntaxWarning))
        except (SyntaxError, ValueError) as e:
            errors.append((rel, f"{type(e).__name__}: {getattr(e, 'msg', e)}"))
            continue
        skel[rel] = skeleton(tree)
        consts[rel] = {n.value for n in ast.walk(tree) if isinstance(n, ast.Constant) and isinstance(n.value, str)}
    return skel, consts, errors, nwarn


def site_of(rel: str) -> str:
    if rel.startswith("models/"):
        return "models/<model>" if rel != "models/__init__.py" else rel
    if rel.startswith("endpoints/") and rel != "endpoints/__init__.py":
        return "endpoints/<tag>"
    if rel.startswith("mocks/endpoints/") and not rel.endswith("__init__.py"):
        return "mocks/endpoints/<tag>"
    return rel


def pclass(name: str) -> str:
    return name if name in PAYLOADS or name in PAIRS else "random"


def run_cell(ctx: Ctx, position: str, pname: str, text: str, baseline: dict) -> None:
    rec = ctx.rec
    root = ctx.scratch.new("cell")
    doc = place(base_doc(), position, text)
    case = {"position": position, "payload_name": pname, "payload": text}
    feats = [f"pos_{position}", f"payload_{pclass(pname)}", f"cell_{position}:{pclass(pname)}"]
    nontriv = any(not (ch.isalnum() or ch == " ") for ch in text)
    rec.case(case, nontrivial=nontriv)
    rec.count("cells_visited")
    res = genrun.generate(doc, root, "pk", None)
    if not res.ok:
        rec.count("generations_rejected")
        rec.seen("rejected_cells", f"{position}:{pclass(pname)}:{(res.error or '')[:60]}")
        return
    skel, consts, errors, nwarn = analyse(root, "pk")
    rec.count("files_parsed", len(skel))
    rec.count("invalid_escape_warnings_diagnostic", nwarn)
    for rel, err in errors:
        rec.violation(f"parse:{site_of(rel)}:{position}", feats, case, f"{rel}: {err}")
    b = baseline[position]
    for rel, h in skel.items():
        rec.count("skeletons_compared")
        bh = b["skel"].get(rel)
        if bh is None:
            # file names may legitimately depend on the text (tag, property promoted to a schema): compare by site instead
            sites = {x for r, x in b["skel"].items() if site_of(r) == site_of(rel)}
            if sites and h not in sites:
                rec.violation(f"structure:{site_of(rel)}:{position}", feats, case, f"{rel}: skeleton differs from every benign file of that site")
        elif bh != h:
            rec.violation(f"structure:{site_of(rel)}:{position}", feats, case, f"{rel}: skeleton {h} != benign {bh}")
    if position in MEANING:
        rec.count("meaning_literals_checked")
        allc = set().union(*consts.values()) if consts else set()
        want = {"request_media_type": "application/x-" + text}.get(position, text)   # the literal as the wire needs it
        if want not in allc and not errors:
            rec.violation(f"literal:{position}:not_the_original_string", feats, case,
                          f"{text!r} does not appear as a string constant in the emitted package")
    if len(rec.samples) < 2 and nontriv:
        rec.sample({"position": position, "payload": text, "files": len(skel), "syntax_errors": errors[:2]})


def run_shard(ctx: Ctx) -> None:
    common.use_repo()
    genrun.quiet()
    rng = ctx.rng
    # benign baselines per position
    baseline = {}
    for pos in POSITIONS:
        root = ctx.scratch.new("base")
        r = genrun.generate(place(base_doc(), pos, BENIGN), root, "pk", None)
        if not r.ok:
            ctx.rec.inconclusive.append(f"benign baseline for {pos} rejected: {r.error}")
            return
        sk, co, er, _ = analyse(root, "pk")
        baseline[pos] = {"skel": sk}
    cells = [(p, n, t) for p in POSITIONS for n, t in PAYLOADS.items()] + [(p, n, t) for p in PAIR_POSITIONS for n, t in PAIRS.items()]
    for i, (p, n, t) in enumerate(cells):
        if ctx.mine(i):
            run_cell(ctx, p, n, t, baseline)
    ctx.rec.counters["positions"] = len(POSITIONS)
    ctx.rec.counters["payloads"] = len(PAYLOADS)
    pools = [(0x20, 0x7e), (0x20, 0x7e), (0xa0, 0x24f), (0x400, 0x4ff), (0x4e00, 0x4eff), (0x1f600, 0x1f64f), (0x2000, 0x206f), (0x0, 0x1f)]
    for k in range(10 if ctx.quick else 1200):
        n = rng.randint(1, 16)
        t = "".join(chr(rng.randint(*rng.choice(pools))) for _ in range(n))
        t = t.replace("\ud800", "")
        run_cell(ctx, rng.choice(POSITIONS), f"random{k}", t, baseline)


def finalize(m: dict, tier: str, seed: int) -> None:
    for k in ("positions", "payloads"):
        m["counters"][k] = len(POSITIONS) if k == "positions" else len(PAYLOADS)


def replay(ctx: Ctx, file: dict) -> None:
    common.use_repo()
    genrun.quiet()
    c = file["case"]
    root = ctx.scratch.new("base")
    genrun.generate(place(base_doc(), c["position"], BENIGN), root, "pk", None)
    sk, _, _, _ = analyse(root, "pk")
    run_cell(ctx, c["position"], c["payload_name"], c["payload"], {c["position"]: {"skel": sk}})
