"""C19 — output depends on the document's meaning, not its rendering.

Metamorphic monitors over real generations: (1) the same document rendered as JSON, YAML block, YAML flow and YAML with
unquoted integer status keys (all dumped WITHOUT key sorting) must produce byte-identical file trees; (2) random
permutations of components.schemas, paths and object properties may change only the order of emitted declarations: the
normalised manifest read back by introspection in a fresh interpreter — models -> {wire key -> (kind, required)},
enums -> value sets, aliases -> targets, tag clients -> {method -> signature} — must stay the same.
"""
from __future__ import annotations

import copy
import hashlib
import json
from pathlib import Path

from .. import common, genrun, richgen, shapes, specgen
from ..common import Ctx

LEVEL = "exploration"
SHARDS = {"quick": 16, "thorough": 16}
FLOOR = {"quick": 100, "thorough": 2500}
REQUIRED_COUNTERS = ["rendering_pairs_compared", "permutation_pairs_compared", "files_hashed", "models_compared", "methods_compared",
                     "yaml_intkeys_renderings", "permutations_that_changed_order"]
RULE = ("clean documents without name collisions x {JSON, YAML block, YAML flow, YAML with unquoted integer status keys} x random "
        "permutations of schema / path / property order; case = (document, variant); non-trivial = the two executions compared really "
        "differ in the varied dimension (different rendering text / different key order)")
ASSUMPTIONS = ["un-importable packages are C01's matter and are not counted here"]

RENDERINGS = ["yaml_block", "yaml_flow", "yaml_intkeys"]


def tree_digest(root: Path, pkg: str) -> dict[str, str]:
    base = root.joinpath(*pkg.split("."))
    out = {}
    for p in sorted(base.rglob("*")):
        if p.is_file() and "__pycache__" not in p.parts:
            out[str(p.relative_to(base))] = hashlib.sha256(p.read_bytes()).hexdigest()
    return out


def permute(rng, doc: dict) -> dict:
    d = copy.deepcopy(doc)

    def shuffled(m: dict) -> dict:
        ks = list(m)
        rng.shuffle(ks)
        return {k: m[k] for k in ks}

    comps = d.get("components", {}).get("schemas", {})
    for name, sch in comps.items():
        if isinstance(sch.get("properties"), dict):
            sch["properties"] = shuffled(sch["properties"])
        for part in sch.get("allOf", []):
            if isinstance(part.get("properties"), dict):
                part["properties"] = shuffled(part["properties"])
    d["components"]["schemas"] = shuffled(comps)
    d["paths"] = shuffled(d["paths"])

    # the member order of ANY JSON object is rendering, not meaning: path items (operations vs. the path-level
    # 'parameters' key), operation objects, parameter and schema objects.  Kept as written: the key order of 'responses'
    # and 'content' maps (which entry counts as the first declared one is looked at by other checks) - their values are
    # still walked.  Lists are ordered by meaning and never touched.
    def walk(x, keep_order=False):
        if isinstance(x, dict):
            ks = list(x)
            if not keep_order:
                rng.shuffle(ks)
            return {k: walk(x[k], keep_order=k in ("responses", "content")) for k in ks}
        if isinstance(x, list):
            return [walk(i) for i in x]
        return x

    d["paths"] = {p: walk(item) for p, item in d["paths"].items()}
    # ... and the keyword order inside every schema object of components (what yaml.safe_dump / json.dumps(sort_keys=True) change)
    d["components"]["schemas"] = {n: walk(sch) for n, sch in d["components"]["schemas"].items()}
    return d


def add_mixed_keyword_schemas(rng, doc: dict) -> None:
    """Schemas WITHOUT a `type` keyword that carry two kinds of structural keyword (properties next to oneOf / anyOf / allOf /
    enum): legal, and which keyword comes first in the text must not decide what they become."""
    sch = doc.setdefault("components", {}).setdefault("schemas", {})
    ref = lambda n: {"$ref": f"#/components/schemas/{n}"}  # noqa
    sch["MixLeafA"] = {"type": "object", "required": ["ka"], "properties": {"ka": {"type": "string"}}}
    sch["MixLeafB"] = {"type": "object", "required": ["kb"], "properties": {"kb": {"type": "integer"}}}
    fam = {
        "MixPropsOneOf": {"properties": {"label": {"type": "string"}, "n": {"type": "integer"}}, "oneOf": [ref("MixLeafA"), ref("MixLeafB")]},
        "MixPropsAnyOf": {"anyOf": [ref("MixLeafA"), ref("MixLeafB")], "properties": {"label": {"type": "string"}}},
        "MixPropsAllOf": {"properties": {"extra": {"type": "boolean"}}, "allOf": [ref("MixLeafA")]},
        "MixEnumProps": {"enum": ["a", "b"], "properties": {"label": {"type": "string"}}},
        "MixItemsProps": {"items": {"type": "string"}, "properties": {"label": {"type": "string"}}},
        "MixAddlOneOf": {"additionalProperties": {"type": "integer"}, "oneOf": [ref("MixLeafA"), ref("MixLeafB")]},
    }
    names = rng.sample(sorted(fam), rng.randint(2, 4))
    for k, nm in enumerate(names):
        node = fam[nm]
        ks = list(node)
        rng.shuffle(ks)
        sch[nm] = {key: node[key] for key in ks}
        doc.setdefault("paths", {})[f"/opmix{k}/mixed"] = {"get": {"operationId": f"getMixed{k}", "tags": ["mixed"], "responses": {
            "200": {"description": "ok", "content": {"application/json": {"schema": ref(nm)}}}}}}


def normalise(po: dict, pkg: str) -> dict:
    def clean(s):
        return s.replace(pkg + ".", "PKG.") if isinstance(s, str) else s

    models = {}
    for name, entries in po["models"]["models"].items():
        es = []
        for e in entries:
            if e["kind"] == "dataclass":
                load = e.get("load") or {}
                inv = {v: k for k, v in load.items()}
                es.append({"kind": "dataclass", "fields": {inv.get(f["name"], f["name"]): [clean(f["kind"]), f["has_default"]] for f in e["fields"]}})
            elif e["kind"] == "enum":
                es.append({"kind": "enum", "values": sorted(map(str, (m[1] for m in e["members"])))})
            elif e["kind"] == "alias":
                es.append({"kind": "alias", "value": clean(e["value"])})
            else:
                es.append({"kind": e["kind"]})
        models[name] = sorted(es, key=json.dumps)
    clients = {}
    for cname, c in po["surface"]["clients"].items():
        clients[cname] = {m: [[p["name"], p["kind"], p["has_default"], clean(p["ann"])] for p in s.get("params", [])] + [clean(s.get("ret"))]
                          for m, s in c["methods"].items()}
    return {"models": models, "clients": clients, "api_properties": sorted((po["surface"].get("api_client") or {}).get("properties", {}))}


def first_diff(a, b, path="$"):
    if type(a) != type(b):
        return f"{path}: {a!r} != {b!r}"
    if isinstance(a, dict):
        for k in sorted(set(a) | set(b)):
            if k not in a or k not in b:
                return f"{path}.{k}: present only on one side"
            d = first_diff(a[k], b[k], f"{path}.{k}")
            if d:
                return d
        return None
    if isinstance(a, list):
        if len(a) != len(b):
            return f"{path}: length {len(a)} != {len(b)}"
        for i, (x, y) in enumerate(zip(a, b)):
            d = first_diff(x, y, f"{path}[{i}]")
            if d:
                return d
        return None
    return None if a == b else f"{path}: {a!r} != {b!r}"


def run_doc(ctx: Ctx, d: specgen.Doc, n: int) -> None:
    rec, rng = ctx.rec, ctx.rng
    feats = sorted(d.features)
    pkg = f"c{n}"
    roots = {}
    base_root = ctx.scratch.new("base")
    res = genrun.generate(d.doc, base_root, pkg, None, rendering="json")
    if not res.ok:
        rec.count("generations_rejected")
        return
    base_tree = tree_digest(base_root, pkg)
    rec.count("files_hashed", len(base_tree))
    for rnd in RENDERINGS:
        root = ctx.scratch.new(rnd)
        case = {"doc": d.doc, "variant": rnd}
        spec_path = genrun.write_spec(d.doc, root.parent / f"spec-{root.name}", rnd)
        differs_in_text = spec_path.read_text() != json.dumps(d.doc)
        r = genrun.generate(d.doc, root, pkg, None, rendering=rnd, spec_path=spec_path)
        rec.case(case, nontrivial=differs_in_text)
        rec.count("rendering_pairs_compared")
        if rnd == "yaml_intkeys":
            rec.count("yaml_intkeys_renderings")
        if not r.ok:
            rec.violation(f"rendering:{rnd}:generation_fails", feats, case, (r.error or "")[:300])
            continue
        skipped = [w for w in r.warnings if "Skipping operation" in w]
        if skipped:
            rec.violation(f"rendering:{rnd}:operation_skipped", feats, case, skipped[0][:200])
        t = tree_digest(root, pkg)
        rec.count("files_hashed", len(t))
        if t != base_tree:
            only_a, only_b = sorted(set(base_tree) - set(t)), sorted(set(t) - set(base_tree))
            diff = [f for f in base_tree if f in t and t[f] != base_tree[f]]
            rec.violation(f"rendering:{rnd}:tree_differs", feats, case, f"missing {only_a[:4]} extra {only_b[:4]} changed {diff[:4]}")
    # permutations
    root = ctx.scratch.new("perm")
    nperm = 3 if ctx.quick else 6
    variants = [("base", d.doc)] + [(f"perm{i}", permute(rng, d.doc)) for i in range(nperm)]
    pk = {}
    for name, doc in variants:
        p = f"{pkg}_{name}"
        r = genrun.generate(doc, root, p, None, spec_path=genrun.write_spec(doc, root / f"spec-{name}"))
        if r.ok:
            pk[name] = (p, doc)
        elif name != "base":
            rec.violation("permutation:generation_fails", feats, {"doc": d.doc, "variant": name, "permuted": doc}, (r.error or "")[:300])
    if "base" not in pk:
        return
    job = {"root": str(root), "packages": [{"pkg": p, "core": p + ".core"} for p, _ in pk.values()], "actions": ["models", "surface"]}
    out = genrun.run_probe(job, root / "probe")
    if "probe_error" in out:
        rec.count("probe_failed_diagnostic")
        return
    bp = pk["base"][0]
    if out["packages"][bp]["models"]["errors"] or out["packages"][bp]["surface"]["errors"]:
        rec.count("base_not_importable_diagnostic")
        return
    base_m = normalise(out["packages"][bp], bp)
    rec.count("models_compared", len(base_m["models"]))
    rec.count("methods_compared", sum(len(v) for v in base_m["clients"].values()))
    for name, (p, doc) in pk.items():
        if name == "base":
            continue
        case = {"doc": d.doc, "variant": name, "permuted": doc}
        changed = json.dumps(doc) != json.dumps(d.doc)
        rec.case({"doc": d.doc, "perm": json.dumps(doc)[:2000]}, nontrivial=changed)
        rec.count("permutation_pairs_compared")
        if changed:
            rec.count("permutations_that_changed_order")
        po = out["packages"][p]
        if po["models"]["errors"] or po["surface"]["errors"]:
            rec.violation("permutation:package_not_importable", feats, case, json.dumps((po["models"]["errors"] + po["surface"]["errors"])[0])[:300])
            continue
        m = normalise(po, p)
        diff = first_diff(base_m, m)
        if diff:
            where = diff.split(":")[0].split(".")[1] if "." in diff else "?"
            rec.violation(f"permutation:manifest_differs:{where}", feats, case, diff[:300])
    if len(rec.samples) < 2:
        rec.sample({"document_schemas": list(d.doc["components"]["schemas"]), "permuted_schemas": [list(v[1]["components"]["schemas"]) for k, v in pk.items() if k != "base"][:2],
                    "manifest_models": {k: v for k, v in list(base_m["models"].items())[:2]}})


def run_shard(ctx: Ctx) -> None:
    common.use_repo()
    total = 5 if ctx.quick else 90
    for b in range(total):
        d = specgen.generate(ctx.rng, prof={"ops": (2, 5), "schemas": (3, 6), "p_stream": 0.1, "opid_shapes": True, "p_param": 0.8,
                                            "p_component_refs": 0.4})
        if b % 2 == 1:
            add_mixed_keyword_schemas(ctx.rng, d.doc)
            d.features.add("typeless_schemas_with_two_structural_keywords")
            ctx.rec.count("documents_with_mixed_keyword_schemas")
        run_doc(ctx, d, ctx.shard * 1000 + b)
    # schema-centred documents (nested containers, nullable anything, named maps / aliases): same invariance
    for b in range(2 if ctx.quick else 30):
        # trigger class (recorded finding): arrays without a name of their own whose items need a class
        allow = {"anonymous_array_items"} if ctx.rng.random() < 0.3 else set()
        run_doc(ctx, richgen.generate(ctx.rng, allow=allow), ctx.shard * 1000 + 500 + b)
        ctx.rec.count("rich_documents")
    run_catalogue(ctx)
    # a document that is merely large (hundreds of references to one finished schema): order must still not matter
    if ctx.shard in (0, 1, 2):
        from .. import graphgen
        wdoc, _ = graphgen.wide_doc(["audit_info", "AuditInfo", "HTTPAudit"][ctx.shard])
        ctx.rec.count("wide_documents")
        run_doc(ctx, specgen.Doc(wdoc, {}, [], {"wide_document"}), ctx.shard * 1000 + 990)


def run_catalogue(ctx: Ctx) -> None:
    """The exhaustive shape catalogue under the same differential: the shared schemas every shape refers to (a model, an enum, a
    primitive alias, unions) are declared first in the base document, so every permutation turns some references into forward
    references - e.g. the nullable-reference idiom allOf [$ref] + nullable pointing at an enum declared later."""
    chunks = shapes.chunked(2 if ctx.quick else 3, 20)
    for ci, chunk in enumerate(chunks):
        if not ctx.mine(ci):
            continue
        if ctx.quick and (ci // ctx.nshards) % 2:
            continue
        d = shapes.document(chunk)
        feats = set(getattr(d, "features", set())) | {"shape_catalogue"}
        # arrays without a name of their own whose items need a class (recorded finding: their class names follow parse order)
        if any(("array" in sh[:-1] or sh[-1] == "array_no_items") and ("map" in sh[:-1] or "array" in sh[:-1]) for _, sh in chunk):
            feats.add("rich_anonymous_array_items")
        d.features = feats
        ctx.rec.count("catalogue_documents")
        run_doc(ctx, d, ctx.shard * 1000 + 700 + ci)


def replay(ctx: Ctx, file: dict) -> None:
    common.use_repo()
    c = file["case"]
    d = specgen.Doc(c["doc"], {}, [], set(file.get("features", [])))
    run_doc(ctx, d, 1)
