"""C02 — schema-to-model structure fidelity (no silently lost fields).

Reference-model monitor: graphgen builds every small schema multigraph together with an independent expectation
(own + allOf-inherited properties, cycle-safe) and the real loader / generator is observed at two points:
 (i)  load_ir_from_spec(doc).schemas — per declared name the property key set and `required` (every graph);
 (ii) the imported generated package in a fresh interpreter — dataclasses.fields, Meta.key_transform_with_load/dump
      (bijection, keys exactly the spec's property names), has-default <=> not required, structural kind of the annotation.
A lost-field case is attributed to the open finding only when the schema lies on a reference cycle of the raw document;
field loss on an acyclic document is always new.
"""
from __future__ import annotations

import itertools
import json
import logging
import re

from .. import common, genrun, graphgen, shapes
from ..common import Ctx

LEVEL = "exploration"
SHARDS = {"quick": 16, "thorough": 16}
FLOOR = {"quick": 10000, "thorough": 100000}
REQUIRED_COUNTERS = ["ir_schemas_checked", "ir_graphs", "pkg_models_checked", "pkg_fields_checked", "graphs_with_allof",
                     "graphs_cyclic", "graphs_acyclic", "orders", "meta_bijections_checked", "shape_models_checked"]
RULE = ("all directed multigraphs on 2 named schemas (8 edge kinds per ordered pair incl. self-pairs) x both declaration orders x 3 naming "
        "schemes at IR level, a sample of them (all acyclic ones in thorough) at generated-package level; thorough adds 3 schemas with <=3 "
        "edges x 6 orders and random graphs with 4-6 schemas; case = (graph, order, scheme); non-trivial = graph has >=1 edge")
ASSUMPTIONS = ["graphs whose allOf edges form a cycle have no defined inheritance and are skipped for the nodes concerned",
               "OpenAPI validator stubbed for speed (it cannot influence the IR)"]


def kind_ok(exp_kind: str, target: str | None, got: str, names: list[str]) -> bool:
    g = got[4:] if got.startswith("opt:") else got
    if exp_kind == "integer":
        return g == "int"
    if exp_kind == "string":
        return g == "str"
    if exp_kind == "ref":
        return g in (f"ref:{target}", f"fwd:{target}") or (g.startswith("fwd:") and target in g)
    if exp_kind == "array_of_ref":
        return g in (f"list[ref:{target}]", f"list[fwd:{target}]") or (g.startswith("fwd:List[") and target in g)
    if exp_kind == "inline_object":
        return g.startswith("ref:") or g.startswith("dict[") or g.startswith("fwd:")
    if exp_kind == "array_of_inline":
        return g.startswith("list[ref:") or g.startswith("list[dict") or g.startswith("list[opt:ref:") or g.startswith("fwd:List[")
    if exp_kind == "map_of_ref":
        return g.startswith("ref:") or g.startswith("dict[") or g.startswith("fwd:")
    if exp_kind == "union":
        return "union[" in g or g.startswith("ref:") or g.startswith("fwd:") or g.startswith("other:") or g == "any" or target in g
    return False


def norm(s: str) -> str:
    """Harness-side comparison of a declared schema name with a derived class name: ASCII letters and digits, case-folded."""
    return re.sub(r"[^a-z0-9]", "", (s or "").lower())


def check_ir(ctx: Ctx, ldr, desc, doc, expect, resolved, on_cycle_names, feats_base) -> None:
    rec = ctx.rec
    rewritten = desc.get("scheme") == "rewritten"
    rec.count("ir_graphs")
    try:
        ir = ldr.load_ir_from_spec(doc)
    except Exception as e:
        rec.violation(f"ir:load_raises:{type(e).__name__}", feats_base, {"desc": desc, "doc": doc}, str(e)[:200])
        return
    for name, exp in resolved.items():
        if exp is None:
            continue
        feats = feats_base + (["schema_on_ref_cycle"] if name in on_cycle_names else []) + (
            ["refers_to_schema_on_cycle"] if name in desc.get("_refers_cyclic", []) else [])
        if rewritten and name in on_cycle_names:
            feats = feats + ["rewritten_name_on_ref_cycle"]
        rec.count("ir_schemas_checked")
        cands = [s for k, s in ir.schemas.items() if k == name or s.name == name or (rewritten and norm(name) in (norm(k), norm(s.name)))]
        cands = list({id(c): c for c in cands}.values())
        real = [s for s in cands if not (s._is_circular_ref or s._max_depth_exceeded_marker or s._from_unresolved_ref)]
        case = {"desc": desc, "doc": doc, "schema": name}
        if not cands:
            rec.violation("ir:schema_missing", feats, case, name)
            continue
        s = real[0] if real else cands[0]
        if not real:
            rec.violation("ir:schema_is_placeholder", feats, case, f"{name}: only placeholder(s) in IRSpec.schemas")
            continue
        if len(real) > 1:
            rec.violation("ir:schema_duplicated", feats, case, f"{name}: {len(real)} entries")
        got_keys, exp_keys = set(s.properties), set(exp)
        if got_keys != exp_keys:
            lost, extra = sorted(exp_keys - got_keys), sorted(got_keys - exp_keys)
            sig = "ir:fields_lost" if lost and not extra else ("ir:fields_unexpected" if extra and not lost else "ir:fields_differ")
            inherited = set(exp) - set(expect[name]["own"])
            if lost and set(lost) <= inherited:
                sig += ":inherited_only"
            rec.violation(sig, feats, case, f"{name}: lost {lost} unexpected {extra}")
            continue
        exp_req = {k for k, v in exp.items() if v[1]}
        if set(s.required) & exp_keys != exp_req:
            rec.violation("ir:required_differs", feats, case, f"{name}: {sorted(s.required)} != {sorted(exp_req)}")


def check_pkg(ctx: Ctx, items: list[dict]) -> None:
    rec = ctx.rec
    root = ctx.scratch.new("proj")
    acc = []
    for it in items:
        pkg = f"g{it['n']}"
        it["pkg"] = pkg
        res = genrun.generate(it["doc"], root, pkg, None, spec_path=genrun.write_spec(it["doc"], root / f"spec{it['n']}"))
        if res.ok:
            acc.append(it)
        else:
            rec.count("pkg_generation_rejected")
    if not acc:
        return
    job = {"root": str(root), "packages": [{"pkg": i["pkg"], "core": i["pkg"] + ".core"} for i in acc], "actions": ["models"]}
    out = genrun.run_probe(job, root / "probe")
    if "probe_error" in out:
        rec.count("pkg_probe_failed_diagnostic")
        return
    for it in acc:
        mm = out["packages"][it["pkg"]]["models"]
        if mm["errors"]:
            rec.count("pkg_not_importable_diagnostic")   # C01 decides these
            continue
        names = list(it["resolved"])
        if it["desc"].get("scheme") == "rewritten":
            # class names are derived (HTTPAlpha -> HttpAlpha): translate them back to the declared names by an
            # alphanumeric, case-folded comparison; a class named <derived name><digits> is a de-collided duplicate
            back = {norm(n): n for n in names}

            def declared(cname: str) -> str | None:
                k = norm(cname)
                return back.get(k) or back.get(k.rstrip("0123456789"))

            tr: dict = {}
            for cname, entries in mm["models"].items():
                tr.setdefault(declared(cname) or cname, []).extend(entries)
            for entries in tr.values():
                for e in entries:
                    for f in e.get("fields", []):
                        f["kind"] = re.sub(r"(ref|fwd|enum):(\w+)", lambda m: f"{m.group(1)}:{declared(m.group(2)) or m.group(2)}", f["kind"])
            mm = dict(mm, models=tr)
        for name, exp in it["resolved"].items():
            if exp is None:
                continue
            feats = it["feats"] + (["schema_on_ref_cycle"] if name in it["on_cycle"] else []) + (
                ["refers_to_schema_on_cycle"] if name in it["desc"].get("_refers_cyclic", []) else [])
            if it["desc"].get("scheme") == "rewritten" and name in it["on_cycle"]:
                feats = feats + ["rewritten_name_on_ref_cycle"]
            case = {"desc": it["desc"], "doc": it["doc"], "schema": name}
            entries = [e for e in mm["models"].get(name, []) if e["kind"] == "dataclass"]
            rec.count("pkg_models_checked")
            if len(entries) != 1:
                rec.violation(f"pkg:model_count_{len(entries)}", feats, case, f"{name}: {[e['module'] for e in mm['models'].get(name, [])]}")
                continue
            m = entries[0]
            load, dump = m["load"] or {}, m["dump"] or {}
            rec.count("meta_bijections_checked")
            if set(load) != set(exp):
                lost, extra = sorted(set(exp) - set(load)), sorted(set(load) - set(exp))
                rec.violation("pkg:wire_keys_lost" if lost and not extra else "pkg:wire_keys_differ", feats, case, f"{name}: lost {lost} unexpected {extra}")
                continue
            fields = {f["name"]: f for f in m["fields"]}
            if sorted(load.values()) != sorted(fields) or {v: k for k, v in load.items()} != dump:
                rec.violation("pkg:meta_maps_not_inverse_bijections", feats, case, f"{name}: load {load} dump {dump} fields {sorted(fields)}")
                continue
            for key, (kind, req, target) in exp.items():
                f = fields[load[key]]
                rec.count("pkg_fields_checked")
                if f["has_default"] == req:
                    rec.violation("pkg:requiredness_differs", feats, case, f"{name}.{key}: required={req} has_default={f['has_default']}")
                if not kind_ok(kind, target, f["kind"], names):
                    rec.violation(f"pkg:structural_kind_differs:{kind}", feats, case, f"{name}.{key}: expected {kind}->{target}, annotation kind {f['kind']} ({f['ann']})")
    if len(rec.samples) < 2:
        it = acc[0]
        rec.sample({"desc": it["desc"], "schemas": it["doc"]["components"]["schemas"],
                    "models": {k: [{"fields": [(f["name"], f["kind"], f["has_default"]) for f in e.get("fields", [])], "load": e.get("load")} for e in v]
                               for k, v in out["packages"][it["pkg"]]["models"]["models"].items()}})


def graphs(ctx: Ctx):
    i = 0
    for edges in graphgen.all_graphs(2):
        for order in itertools.permutations(range(2)):
            for scheme in ("plain", "prefix", "propcase", "itemish", "rewritten"):
                i += 1
                if ctx.mine(i):
                    yield 2, edges, order, scheme
    # targeted 3-node family (both tiers): child allOf parent, parent (and/or child) pointing at an acyclic leaf, so that
    # properties exist that ONLY the parent declares and the child's own part tightens one of them
    for k1 in graphgen.EDGE_KINDS[1:7]:
        for extra in ({}, {(0, 2): "ref"}, {(0, 2): "all_of"}, {(2, 1): "all_of"}):
            edges = {(0, 1): "all_of", (1, 2): k1, **extra}
            for order in itertools.permutations(range(3)):
                for scheme in ("plain", "prefix", "propcase", "rewritten"):
                    i += 1
                    if ctx.mine(i):
                        yield 3, edges, order, scheme
    if not ctx.quick:
        for edges in graphgen.all_graphs(3, max_edges=3):
            for order in itertools.permutations(range(3)):
                i += 1
                if ctx.mine(i):
                    yield 3, edges, order, ("plain", "prefix", "propcase")[i % 3]
        for _ in range(400):
            n = ctx.rng.randint(4, 6)
            e = graphgen.random_graph(ctx.rng, n, ctx.rng.choice([0.1, 0.2, 0.35]))
            o = list(range(n))
            ctx.rng.shuffle(o)
            yield n, e, tuple(o), ctx.rng.choice(["plain", "prefix", "propcase"])


def prepare(n, edges, order, scheme):
    doc, expect = graphgen.build_doc(n, edges, order, scheme)
    doc["paths"] = {"/op1/x": {"get": {"operationId": "getX", "responses": {"200": {"description": "ok"}}}}}
    resolved = graphgen.resolve_expected(expect)
    names = graphgen.NAMING[scheme][:n]
    on_cycle = {names[i] for i in graphgen.nodes_on_cycles(n, edges)}
    # a schema that inherits (allOf, transitively) from a schema on a cycle is affected by the same mechanism
    changed = True
    while changed:
        changed = False
        for nm, e in expect.items():
            if nm not in on_cycle and any(p in on_cycle for p in e["parents"]):
                on_cycle.add(nm)
                changed = True
    desc = {"n": n, "edges": graphgen.edges_key(edges), "order": list(order), "scheme": scheme}
    feats = [f"scheme_{scheme}"]
    if scheme == "propcase" and any(k == "inline_obj" for k in edges.values()):
        # an inline-object property whose name equals ANOTHER schema's name up to case (property 'edge', schema 'Edge')
        feats.append("inline_prop_named_like_schema")
    # schemas that are not on a cycle themselves but refer to one that is (they may be given a de-collided duplicate class)
    refers = {names[i] for (i, j), k in edges.items() if k != "none" and names[j] in on_cycle}
    desc["_refers_cyclic"] = sorted(refers - on_cycle)
    return doc, expect, resolved, on_cycle, desc, feats


LEAF_KINDS = {"string": {None: "str", "date-time": "datetime", "date": "date", "uuid": "uuid", "byte": "bytes", "binary": "bytes", "time": "time"},
              "integer": {None: "int"}, "number": {None: "float"}, "boolean": {None: "bool"}}


def split_kind(g: str) -> tuple[str, str]:
    """'list[dict[opt:str]]' -> ('list', 'dict[opt:str]'); 'opt:x' is unwrapped by the caller."""
    if g.endswith("]") and "[" in g:
        i = g.index("[")
        return g[:i], g[i + 1:-1]
    return g, ""


def shape_kind_ok(e: dict, g: str) -> bool:
    """Does the structural kind `g` read off the generated annotation fit the expectation `e`?  Nullability is not a
    structural kind (C03 judges nulls); a wrapper model standing in for a map is accepted (its values are C03's)."""
    if g.startswith("opt:"):
        g = g[4:]
    k = e["kind"]
    if k in LEAF_KINDS:
        # format: byte is carried as base64 text (str) by this generator; bytes would be as faithful
        return g == LEAF_KINDS[k].get(e.get("format"), "str") or (e.get("format") == "byte" and g == "str")
    if k == "enum_inline":
        # an inline enum is not a reference to a declared enum: its base type is as much as the statement asks for
        if isinstance(e["values"][0], bool):
            return g in ("bool", "literal") or g.startswith("enum:")
        if e.get("untyped_int"):
            return g in ("int", "any") or g.startswith("enum:")      # integer values: an integer kind (never float / str)
        if g == "any":
            return True     # an enum without a 'type' keyword: the spec gives no structural kind to hold it to
        return g.startswith("enum:") or g == ("int" if isinstance(e["values"][0], int) else "str")
    if k == "ref":
        if e.get("nullable") or e.get("sibling_nullable"):
            # the 3.0 spelling of a nullable reference is allOf [$ref]: a new anonymous schema composed of the target;
            # the generator may name it (a model with the target's fields, judged field by field through C03)
            return g.startswith("ref:") or g.startswith("fwd:")
        return g[:4] in ("ref:", "fwd:") and norm(g[4:]) == norm(e["target"])      # (class names are derived: HTTPLeaf -> HttpLeaf)
    if k == "ref_enum":
        if e["target"] == "UntypedLevel" and g == "int":
            return True     # an enum without a type keyword: its value kind (integer) is as much as the spec gives
        return g.startswith("enum:") and norm(g[5:]) == norm(e["target"])
    if k == "ref_alias":
        return g == "datetime"
    if k in ("free_form", "prim_union"):
        return True
    if k == "union":
        # every member model of the (possibly nested) union must still be named by the annotation
        return all(f"ref:{m}" in g or f"fwd:{m}" in g for m in e["variants"])
    head, inner = split_kind(g)
    if k == "array":
        return head == "list" and shape_kind_ok(e["items"], inner)
    if k == "map":
        # a map is a map: dict[str, Any] keeps the structural kind the statement lists (the value kind is judged when typed)
        return (head == "dict" and (inner == "any" or shape_kind_ok(e["values"], inner))) or g.startswith("ref:")
    if k == "inline_object":
        return g.startswith("ref:") or head == "dict"     # an anonymous object: a model of its own, or a plain mapping
    return False


def check_shapes(ctx: Ctx, chunk: list, n: int) -> None:
    """Every wrapper(wrapper(leaf)) property shape: one model per shape; the field's annotation must have the structural
    kind of the shape (list-of / map / reference to the right model / enum / primitive incl. formats)."""
    rec = ctx.rec
    d = shapes.document(chunk)
    root = ctx.scratch.new("shapes")
    pkg = f"sh{n}"
    res = genrun.generate(d.doc, root, pkg, None, spec_path=genrun.write_spec(d.doc, root / "spec"))
    if not res.ok:
        rec.count("pkg_generation_rejected")
        return
    out = genrun.run_probe({"root": str(root), "packages": [{"pkg": pkg, "core": pkg + ".core"}], "actions": ["models"]}, root / "probe")
    if "probe_error" in out:
        rec.count("pkg_probe_failed_diagnostic")
        return
    mm = out["packages"][pkg]["models"]
    for i, sh in chunk:
        name, key = f"S{i}", f"p{i}x"
        ex = shapes.expr(sh)
        feats = shapes.features(sh) + ["shapes"]
        case = {"phase": "shapes", "shape": list(sh), "index": i, "schema": d.doc["components"]["schemas"][name],
                "chunk": [[j, list(s2)] for j, s2 in chunk]}    # the other models of the same document (a replay needs them)
        rec.case({"shape": ex}, nontrivial=len(sh) > 1)
        rec.count("shape_models_checked")
        rec.seen("shapes_checked", ex)
        entries = [e for e in mm["models"].get(name, []) if e["kind"] == "dataclass"]
        if len(entries) != 1:
            rec.violation(f"shape:model_count_{len(entries)}", feats, case, f"{ex}: {name} -> {[e['module'] for e in mm['models'].get(name, [])]}")
            continue
        m = entries[0]
        load = m["load"] or {}
        if set(load) != {key}:
            rec.violation("shape:wire_keys_differ", feats, case, f"{ex}: {name} load map {load}")
            continue
        f = {x["name"]: x for x in m["fields"]}[load[key]]
        e = d.sexp[name]["props"][key]
        if f["has_default"] == bool(e.get("required")):
            rec.violation("shape:requiredness_differs", feats, case, f"{ex}: required={e.get('required')} has_default={f['has_default']}")
        if not shape_kind_ok(e, f["kind"]):
            rec.violation("shape:structural_kind_differs", feats, case, f"{ex}: annotation kind {f['kind']} ({f['ann']})")
            rec.seen("shapes_with_wrong_kind", ex)


TRIO_STYLES = [("addressLine", "address_line", "address_line_2"), ("userId", "user_id", "user_id_2"), ("itemCount", "item-count", "item_count_2"),
               ("Name", "name", "name_2"), ("a.b", "a-b", "a_b_2"), ("x1", "X1", "x1_2"), ("homeURL", "home_url", "home_url_2"),
               ("class", "class_", "class__2")]


def trio_items(ctx: Ctx) -> list[dict]:
    """Models whose wire keys crowd around ONE derived field name: two spellings of the same words plus a key spelled like
    the name a de-collided field gets, in every declaration order, with each of the three in turn being the required one."""
    items = []
    n = 0
    for style in TRIO_STYLES:
        for order in itertools.permutations(range(3)):
            n += 1
            if not ctx.mine(n):
                continue
            schemas, resolved = {}, {}
            for req_i in range(3):
                name = f"Trio{req_i}"
                keys = [style[i] for i in order]
                kinds = {style[0]: "string", style[1]: "integer", style[2]: "string"}
                schemas[name] = {"type": "object", "required": [style[req_i]], "properties": {k: {"type": kinds[k]} for k in keys}}
                resolved[name] = {k: (kinds[k], k == style[req_i], None) for k in keys}
            doc = {"openapi": "3.0.3", "info": {"title": "T", "version": "1"}, "components": {"schemas": schemas},
                   "paths": {"/op1/x": {"get": {"operationId": "getX", "responses": {"200": {"description": "ok"}}}}}}
            items.append({"doc": doc, "resolved": resolved, "on_cycle": set(), "desc": {"phase": "name_trio", "style": list(style), "order": list(order)},
                          "feats": ["name_trio"], "n": ctx.shard * 100000 + 90000 + n})
            ctx.rec.case({"trio": style, "order": order})
            ctx.rec.count("name_trio_documents")
    return items


def namesake_items(ctx: Ctx) -> list[dict]:
    """Primitive properties whose JSON key is spelled exactly like a schema of the document (PascalCase keys, as .NET and Go
    services write them): the key names a string / integer, not the schema."""
    items = []
    for k, (order, req) in enumerate(itertools.product([("Pet", "Status", "Holder"), ("Holder", "Pet", "Status"), ("Status", "Holder", "Pet")], (False, True))):
        if not ctx.mine(k):
            continue
        schemas_all = {"Pet": {"type": "object", "properties": {"name": {"type": "string"}}},
                       "Status": {"type": "string", "enum": ["new", "sold"]},
                       "Holder": {"type": "object", "properties": {"Pet": {"type": "string"}, "Status": {"type": "integer"}, "Count": {"type": "integer"}},
                                  **({"required": ["Pet"]} if req else {})}}
        doc = {"openapi": "3.0.3", "info": {"title": "T", "version": "1"}, "components": {"schemas": {n: schemas_all[n] for n in order}},
               "paths": {"/op1/x": {"get": {"operationId": "getX", "responses": {"200": {"description": "ok", "content": {"application/json": {
                   "schema": {"$ref": "#/components/schemas/Holder"}}}}}}}}}
        resolved = {"Pet": {"name": ("string", False, None)}, "Status": None,
                    "Holder": {"Pet": ("string", req, None), "Status": ("integer", False, None), "Count": ("integer", False, None)}}
        items.append({"doc": doc, "resolved": resolved, "on_cycle": set(), "desc": {"phase": "namesake", "order": list(order), "required": req},
                      "feats": ["primitive_property_named_like_a_schema"], "n": ctx.shard * 100000 + 97000 + k})
        ctx.rec.case({"namesake": order, "req": req})
        ctx.rec.count("namesake_documents")
    return items


def run_shard(ctx: Ctx) -> None:
    common.use_repo()
    logging.disable(logging.CRITICAL)
    import warnings

    warnings.simplefilter("ignore")
    import pyopenapi_gen.core.loader.loader as ldr

    ldr.validate_spec = None
    rec = ctx.rec
    pkg_batch: list[dict] = []
    k = 0
    pkg_budget = 30 if ctx.quick else 600
    for n, edges, order, scheme in graphs(ctx):
        doc, expect, resolved, on_cycle, desc, feats = prepare(n, edges, order, scheme)
        rec.case(desc, nontrivial=bool(edges))
        rec.seen("orders", str(list(order)))
        rec.count("orders")
        cyc = graphgen.has_cycle(n, edges)
        rec.count("graphs_cyclic" if cyc else "graphs_acyclic")
        if any(v == "all_of" for v in edges.values()):
            rec.count("graphs_with_allof")
        if graphgen.has_cycle(n, edges, {"all_of"}):
            rec.count("graphs_skipped_cyclic_inheritance")
            continue
        check_ir(ctx, ldr, desc, doc, expect, resolved, on_cycle, feats)
        k += 1
        take = (not cyc and k % 3 == 0) or (cyc and k % 40 == 0)
        if take and pkg_budget > 0:
            pkg_budget -= 1
            pkg_batch.append({"doc": doc, "resolved": resolved, "on_cycle": on_cycle, "desc": desc, "feats": feats, "n": ctx.shard * 100000 + k})
            if len(pkg_batch) >= 10:
                check_pkg(ctx, pkg_batch)
                pkg_batch = []
    if pkg_batch:
        check_pkg(ctx, pkg_batch)
    # documents that are merely large: hundreds of references to one finished schema, spelled so that derivation rewrites
    # its name (and, as a control, so that it does not)
    for wi, shared in enumerate(["audit_info", "AuditInfo", "HTTPAudit"]):
        if ctx.mine(wi):
            wdoc, wres = graphgen.wide_doc(shared)
            rec.case({"wide": shared})
            rec.count("wide_documents")
            check_pkg(ctx, [{"doc": wdoc, "resolved": wres, "on_cycle": set(), "desc": {"phase": "wide", "scheme": "rewritten", "shared": shared},
                             "feats": ["wide_document"], "n": ctx.shard * 100000 + 95000 + wi}])
    ni = namesake_items(ctx)
    if ni:
        check_pkg(ctx, ni)
    ti = trio_items(ctx)
    for i in range(0, len(ti), 10):
        check_pkg(ctx, ti[i:i + 10])
    chunks = shapes.chunked(2 if ctx.quick else 3, 20)
    for ci, chunk in enumerate(chunks):
        if ctx.mine(ci):
            check_shapes(ctx, chunk, ctx.shard * 1000 + ci)


def replay(ctx: Ctx, file: dict) -> None:
    common.use_repo()
    logging.disable(logging.CRITICAL)
    import pyopenapi_gen.core.loader.loader as ldr

    ldr.validate_spec = None
    if file["case"].get("phase") == "shapes":
        check_shapes(ctx, [(j, tuple(s2)) for j, s2 in file["case"].get("chunk") or [[file["case"]["index"], file["case"]["shape"]]]], 1)
        return
    d = file["case"]["desc"]
    if d.get("phase") == "namesake":
        doc = file["case"]["doc"]
        req = d.get("required", False)
        resolved = {"Pet": {"name": ("string", False, None)}, "Status": None,
                    "Holder": {"Pet": ("string", req, None), "Status": ("integer", False, None), "Count": ("integer", False, None)}}
        check_pkg(ctx, [{"doc": doc, "resolved": resolved, "on_cycle": set(), "desc": d, "feats": ["primitive_property_named_like_a_schema"], "n": 1}])
        return
    if d.get("phase") == "wide":
        wdoc, wres = graphgen.wide_doc(d["shared"])
        check_pkg(ctx, [{"doc": wdoc, "resolved": wres, "on_cycle": set(), "desc": d, "feats": ["wide_document"], "n": 1}])
        return
    if d.get("phase") == "name_trio":
        doc = file["case"]["doc"]
        resolved = {nm: {k: (v["type"], k in sch.get("required", []), None) for k, v in sch["properties"].items()}
                    for nm, sch in doc["components"]["schemas"].items()}
        check_pkg(ctx, [{"doc": doc, "resolved": resolved, "on_cycle": set(), "desc": d, "feats": ["name_trio"], "n": 1}])
        return
    edges = {}
    for part in filter(None, d["edges"].split(";")):
        ij, kind = part.split(":")
        i, j = ij.split(">")
        edges[(int(i), int(j))] = kind
    doc, expect, resolved, on_cycle, desc, feats = prepare(d["n"], edges, tuple(d["order"]), d["scheme"])
    ctx.rec.case(desc)
    check_ir(ctx, ldr, desc, doc, expect, resolved, on_cycle, feats)
    check_pkg(ctx, [{"doc": doc, "resolved": resolved, "on_cycle": on_cycle, "desc": desc, "feats": feats, "n": 1}])
