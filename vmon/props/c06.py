"""C06 — non-2xx responses always raise a status-carrying, class-correct error.

Every generated operation is called, in a fresh interpreter, with the fake server answering a status outside 200-299;
the observed outcome (exception type, MRO, .status_code, .response) is judged: never a return; instance of the package's
HTTPError carrying that status and the response; 4xx -> ClientError, 5xx -> ServerError. Two transports: the bundled
HttpxTransport, and a minimal custom transport that hands non-2xx responses back unraised.
"""
from __future__ import annotations

import json

from .. import common, genrun, specgen
from ..common import Ctx

LEVEL = "exploration"
SHARDS = {"quick": 16, "thorough": 16}
FLOOR = {"quick": 1500, "thorough": 50000}
REQUIRED_COUNTERS = ["sibling_clients_generated", "calls_made", "raised_checked", "status_4xx", "status_5xx", "status_3xx", "status_1xx",
                     "bundled_transport_calls", "custom_transport_calls", "declared_status_calls", "undeclared_status_calls"]
RULE = ("operations with various declared error sets (none, some 4xx/5xx, 3xx, default with/without content) x statuses (declared, "
        "boundary set, random; thorough: all of 100-199 and 300-599) x {bundled HttpxTransport, custom pass-through transport}; "
        "case = (operation, status, transport); non-trivial = the call reached the transport")
ASSUMPTIONS = ["1xx statuses are delivered by MockTransport as final responses (real servers send them as interim responses)"]

BOUNDARY = [100, 199, 300, 302, 304, 399, 400, 404, 418, 422, 499, 500, 503, 599]


def make_calls(ctx: Ctx, d: specgen.Doc) -> list[dict]:
    rng = ctx.rng
    calls = []
    for op in d.ops:
        declared = [int(c) for c in op["responses"] if c.isdigit() and not c.startswith("2")]
        if ctx.quick:
            statuses = sorted(set(declared + BOUNDARY + [rng.choice(list(range(100, 200)) + list(range(300, 600))) for _ in range(6)]))
        else:
            statuses = list(range(100, 200)) + list(range(300, 600))
        for st in statuses:
            for custom in (False, True):
                # error bodies of every JSON shape (an error payload need not be an object), text, and none at all
                body = rng.choice([{"json": {"error": "x", "code": st}}, {"text": "oops"}, {"content_hex": ""},
                                   {"json": ["e1", "e2"]}, {"json": "just a string"}, {"json": None}, {"json": 42},
                                   {"json": {"message": {"nested": True}}}])
                plan = dict({"status": st}, **body)
                calls.append({"id": f"{op['seg']}-{st}-{int(custom)}", "seg": op["seg"], "http": op["method"], "args": [],
                              "plan": plan, "custom_transport": custom,
                              "_exp": {"status": st, "declared": st in declared, "custom": custom,
                                       "default_with_content": bool(op["responses"].get("default", {}).get("content"))}})
    return calls


def judge(call: dict, res: dict, rec, feats, case_base) -> None:
    exp = call["_exp"]
    st = exp["status"]
    tname = "custom" if exp["custom"] else "bundled"
    case = dict(case_base, call={"seg": call["seg"], "http": call["http"], "plan": call["plan"], "custom_transport": exp["custom"]})
    rec.count("calls_made")
    rec.count(f"{tname}_transport_calls")
    rec.count("declared_status_calls" if exp["declared"] else "undeclared_status_calls")
    rec.count(f"status_{st // 100}xx")
    if "error" in res:
        rec.case({"d": common.chash(case_base["doc"]), "c": case["call"]}, nontrivial=False)
        rec.violation(f"call:{res['error']}", feats, case, json.dumps(res.get("exc", {}))[:300])
        return
    rec.case({"d": common.chash(case_base["doc"]), "c": case["call"]}, nontrivial=bool(res["requests"]))
    out = res["outcome"]
    rng_cls = f"{st // 100}xx"
    decl = "declared" if exp["declared"] else "undeclared"
    f2 = feats + [f"transport_{tname}", f"status_{rng_cls}", decl]
    if out["kind"] != "raise":
        rec.violation(f"status:{tname}:{rng_cls}:{decl}:returned_a_value", f2, case, json.dumps(out)[:200])
        return
    rec.count("raised_checked")
    e = out["exc"]
    mro = list(zip(e.get("mro", []), e.get("mro_modules", [])))
    is_http = any(n == "HTTPError" and m.endswith(".exceptions") for n, m in mro)
    rec.seen(f"exception_classes_{rng_cls}_{tname}", e["type"])
    if not is_http:
        rec.violation(f"status:{tname}:{rng_cls}:{decl}:not_HTTPError:{e['type']}", f2, case, e["msg"][:200])
        return
    if e.get("status_code") != st:
        rec.violation(f"status:{tname}:{rng_cls}:{decl}:wrong_status_code", f2, case, f"{e.get('status_code')!r} != {st}")
    if e.get("response_status") != st:
        rec.violation(f"status:{tname}:{rng_cls}:{decl}:response_not_carried", f2, case, f"response status {e.get('response_status')!r}")
    if 400 <= st < 500 and not any(n == "ClientError" for n, _ in mro):
        rec.violation(f"status:{tname}:4xx:{decl}:not_ClientError", f2, case, f"{e['type']} mro {e.get('mro')}")
    if 500 <= st < 600 and not any(n == "ServerError" for n, _ in mro):
        rec.violation(f"status:{tname}:5xx:{decl}:not_ServerError", f2, case, f"{e['type']} mro {e.get('mro')}")


def mk_doc(ctx: Ctx, trig: set[str]) -> specgen.Doc:
    return specgen.generate(ctx.rng, allow=trig, prof={"ops": (2, 4) if ctx.quick else (1, 2), "p_param": 0.3, "p_body": 0.2, "schemas": (2, 4),
                                                       "p_errors": 0.7, "p_3xx": 0.3, "p_stream": 0.1, "p_union": 0.0, "p_self_ref": 0.0,
                                                       "p_default_content": 0.5 if "default_with_content" in trig else 0.0,
                                                       "p_default_content_nobody": 0.6, "p_component_refs": 0.3})


def run_doc(ctx: Ctx, it: dict) -> None:
    rec = ctx.rec
    root = ctx.scratch.new("proj")
    d: specgen.Doc = it["doc"]
    pkg = f"c{it['n']}"
    case_base = {"doc": d.doc, "sexp": d.sexp, "ops": d.ops, "features": sorted(d.features)}
    feats = sorted(d.features)
    core = "sharedrt.core" if it.get("sibling") else None
    res = genrun.generate(d.doc, root, pkg, core, spec_path=genrun.write_spec(d.doc, root / f"spec{it['n']}"))
    if not res.ok:
        rec.count("generations_rejected")
        return
    calls = make_calls(ctx, d)
    pkgs = [{"pkg": pkg, "core": core or pkg + ".core"}]
    usable_before = None
    if it.get("sibling"):
        # the client under test shares its core with a sibling generated AFTER it, from a document that declares no error
        # responses at all: the errors this client raises must still be the status-carrying classes
        case_base["scenario"] = "sibling client without declared errors generated into the same core afterwards"
        feats = feats + ["sibling_client_in_shared_core"]
        pre = genrun.run_probe({"root": str(root), "packages": pkgs, "actions": ["calls"], "calls": [
            {k: v for k, v in c.items() if not k.startswith("_")} for c in calls[:1]]}, root / "probe-before", timeout=300)
        usable_before = "probe_error" not in pre and not pre["packages"][pkg]["calls"].get("errors")
        sib = it.get("sibling_doc") or specgen.generate(ctx.rng, allow=set(), prof={"ops": (1, 2), "p_errors": 0.0, "p_3xx": 0.0, "p_stream": 0.0,
                                                                                   "schemas": (1, 2), "p_union": 0.0, "p_self_ref": 0.0}).doc
        for o in [op for item in sib["paths"].values() for op in item.values() if isinstance(op, dict) and "responses" in op]:
            o["responses"] = {k: v for k, v in o["responses"].items() if k.startswith("2")} or {"204": {"description": "done"}}
        case_base["sibling_doc"] = sib
        r2 = genrun.generate(sib, root, f"sib{it['n']}", core, spec_path=genrun.write_spec(sib, root / f"sib{it['n']}"))
        rec.count("sibling_clients_generated" if r2.ok else "sibling_generations_rejected")
    job = {"root": str(root), "packages": pkgs, "actions": ["calls"],
           "calls": [{k: v for k, v in c.items() if not k.startswith("_")} for c in calls]}
    out = genrun.run_probe(job, root / "probe", timeout=900)
    if "probe_error" in out:
        rec.count("probe_failed_diagnostic")
        if usable_before:
            rec.violation("shared_core:client_unusable_after_sibling_generation:probe", feats, case_base, out["probe_error"][-300:])
        return
    po = out["packages"][pkg]["calls"]
    if po.get("errors"):
        rec.count("client_construct_errors_diagnostic")
        if usable_before:
            e0 = po["errors"][0]
            rec.violation(f"shared_core:client_unusable_after_sibling_generation:{e0.get('type')}", feats, case_base, json.dumps(e0)[:300])
        return
    for c in calls:
        r = po["results"].get(c["id"])
        if r is not None:
            judge(c, r, rec, feats, case_base)
    if len(rec.samples) < 2 and calls:
        c = calls[len(calls) // 2]
        rec.sample({"operation_responses": [o["responses"] for o in d.ops if o["seg"] == c["seg"]], "server_plan": c["plan"],
                    "custom_transport": c["custom_transport"], "outcome": po["results"].get(c["id"], {}).get("outcome")})


def namesake_doc(schema_name: str, code: str) -> specgen.Doc:
    """A document with a schema spelled like the exception class its declared error status maps to (NotFoundError / 404)."""
    R = {"$ref": f"#/components/schemas/{schema_name}"}
    doc = {"openapi": "3.0.3", "info": {"title": "N", "version": "1"}, "paths": {"/op1/items": {"get": {
        "operationId": "getItem", "tags": ["items"], "responses": {"200": {"description": "ok", "content": {"application/json": {"schema": {
            "type": "object", "properties": {"id": {"type": "string"}}}}}},
            code: {"description": "declared error", "content": {"application/json": {"schema": R}}}}}},
        # ... and the same tag has an operation that RETURNS that schema, so the endpoints module imports the model
        "/op2/problems": {"get": {"operationId": "lastProblem", "tags": ["items"], "responses": {"200": {"description": "ok", "content": {
            "application/json": {"schema": R}}}}}}},
        "components": {"schemas": {schema_name: {"type": "object", "properties": {"message": {"type": "string"}, "code": {"type": "integer"}}}}}}
    ops = [{"seg": "op1", "path": "/op1/items", "method": "GET", "tags": ["items"], "operationId": "getItem", "params": [], "body": None,
            "responses": {"200": {"content": "json"}, code: {"error": True}}},
           {"seg": "op2", "path": "/op2/problems", "method": "GET", "tags": ["items"], "operationId": "lastProblem", "params": [], "body": None,
            "responses": {"200": {"content": "json"}}}]
    return specgen.Doc(doc, {schema_name: {"kind": "object", "parents": [], "props": {}}}, ops, {"schema_named_like_an_exception_class"})


def run_shard(ctx: Ctx) -> None:
    common.use_repo()
    namesakes = [("NotFoundError", "404"), ("ConflictError", "409"), ("InternalServerError", "500"), ("HTTPError", "404"), ("ClientError", "422")]
    for i, (nm, code) in enumerate(namesakes):
        if ctx.mine(i):
            ctx.rec.count("namesake_documents")
            run_doc(ctx, {"doc": namesake_doc(nm, code), "n": ctx.shard * 100000 + 900 + i, "trigger": {"schema_named_like_an_exception_class"}})
    total = 5 if ctx.quick else 20
    for b in range(total):
        trig: set[str] = set()
        if ctx.rng.random() < 0.2:
            trig = {"default_with_content"}
        run_doc(ctx, {"doc": mk_doc(ctx, trig), "n": ctx.shard * 100000 + b, "trigger": trig, "sibling": b % 5 == 1})


def replay(ctx: Ctx, file: dict) -> None:
    common.use_repo()
    c = file["case"]
    d = specgen.Doc(c["doc"], c["sexp"], c["ops"], set(c["features"]))
    run_doc(ctx, {"doc": d, "n": 1, "trigger": set(), "sibling": bool(c.get("sibling_doc")), "sibling_doc": c.get("sibling_doc")})
