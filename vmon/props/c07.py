"""C07 — every operation is reachable exactly once per tag; none silently dropped.

Monitor: the probe, in a fresh interpreter, calls EVERY public coroutine / async-generator method of every tag client
reachable as an APIClient property, with dummy arguments, over a recording httpx.MockTransport; each operation of the
input carries a unique static path segment (/opN/...), so a method is identified by the (HTTP method, segment) it hits —
a bijection check that does not depend on how methods are named. Names are then checked (identifier, unique in the
class body, agreement with the naming strategy on collision-free inputs). Warnings are recorded around generate():
'Skipping operation' together with a successful generation is a silent omission. In vivo: an icontract postcondition on
EndpointsEmitter._deduplicate_operation_ids_globally (derived method names pairwise distinct afterwards).
"""
from __future__ import annotations

import json
import keyword
import re

from .. import common, genrun, specgen
from ..common import Ctx

LEVEL = "exploration"
NEEDS_DEPS = True
SHARDS = {"quick": 16, "thorough": 16}
FLOOR = {"quick": 100, "thorough": 2000}
REQUIRED_COUNTERS = ["docs_multi_tag_name_collision", "operations_expected", "methods_called", "requests_captured", "dedup_contract_evals",
                     "docs_yaml", "docs_with_opid_collision", "docs_multi_tag", "strategy_name_checks"]
RULE = ("path/method sets x tag assignments (none, one, several, case/punctuation variants) x operationId shapes (absent, colliding "
        "after sanitisation, FastAPI-suffixed) x 3 naming strategies x JSON/YAML renderings (incl. unquoted integer status keys); "
        "case = (document, strategy, rendering); non-trivial = >=2 operations or >=2 tags or multi-tag")
ASSUMPTIONS = ["tag clients are matched to spec tags by alphanumeric-only case-folded comparison of the APIClient property name"]

RENDERINGS = ["json", "json", "yaml_block", "yaml_flow", "yaml_intkeys"]
TAG_VARIANTS = [["pets"], ["Pets"], ["user-admin"], ["user_admin"], ["User Admin"], ["store"], ["PETS"],
                ["petstore"], ["petStore"], ["DataSources"], ["datasources"], ["data_sources"]]   # same tag, different word splits


def norm(s: str) -> str:
    return "".join(ch for ch in s.lower() if ch.isalnum())


def snake(s: str) -> str:
    s = re.sub(r"([a-z0-9])([A-Z])", r"\1_\2", s)
    return re.sub(r"_+", "_", re.sub(r"[^0-9a-zA-Z_]", "_", s)).strip("_").lower()


_contract = {"evals": 0, "bad": []}


def install_contract() -> None:
    common.use_repo()
    common.use_deps()
    import icontract
    from pyopenapi_gen.emitters.endpoints_emitter import EndpointsEmitter
    from pyopenapi_gen.core.utils import NameSanitizer

    if getattr(EndpointsEmitter._deduplicate_operation_ids_globally, "_vmon", False):
        return

    class DedupBroken(Exception):
        pass

    def names_pairwise_distinct(self, operations, result):  # records, never raises
        _contract["evals"] += 1
        # the property asks for uniqueness per client (tags merged case/punctuation-insensitively), not globally
        per_client: dict[str, list[str]] = {}
        for op in operations:
            for t in sorted({norm(t) for t in (op.tags or ["default"])}):   # two spellings of one tag = one client
                per_client.setdefault(t, []).append(NameSanitizer.sanitize_method_name(op.operation_id))
        dup = sorted({f"{k}:{n}" for k, names in per_client.items() for n in names if names.count(n) > 1})
        if dup:
            _contract["bad"].append(dup)
        return True

    w = icontract.ensure(names_pairwise_distinct, error=DedupBroken)(EndpointsEmitter._deduplicate_operation_ids_globally)
    w._vmon = True  # type: ignore[attr-defined]
    EndpointsEmitter._deduplicate_operation_ids_globally = w


def judge(d: specgen.Doc, disc: dict, surface: dict, strategy: str, rec, feats, case) -> None:
    for e in disc.get("errors", []):
        rec.violation(f"client:construct_error:{e.get('type')}", feats, case, json.dumps(e)[:400])
    # group discovered methods by APIClient property
    by_prop: dict[str, list[dict]] = {}
    for m in disc["methods"]:
        by_prop.setdefault(norm(m["tag"]), []).append(m)
        rec.count("methods_called")
        rec.count("requests_captured", len(m["requests"]))
        if len(m["requests"]) != 1:
            rec.violation("method:request_count", feats, case, json.dumps(m)[:300])
        if not m["method"].isidentifier() or keyword.iskeyword(m["method"]):
            rec.violation("method:invalid_name", feats, case, m["method"])
    expected: dict[str, set] = {}
    for op in d.ops:
        for t in op["tags"]:
            expected.setdefault(norm(t), set()).add((op["method"], op["seg"]))
            rec.count("operations_expected")
    props = {norm(p) for p in disc.get("api_properties", [])}
    for tkey, opset in expected.items():
        if tkey not in props:
            rec.violation("tag:client_not_reachable_from_APIClient", feats, case, f"tag {tkey!r}; properties {sorted(props)}")
            continue
        hits: dict[tuple, list[str]] = {}
        for m in by_prop.get(tkey, []):
            for q in m["requests"]:
                parts = [x for x in q[1].split("/") if x]
                key = (q[0], parts[0] if parts else "")
                hits.setdefault(key, []).append(m["method"])
        for key in opset:
            n = len(hits.get(key, []))
            if n == 0:
                rec.violation("operation:unreachable", feats, case, f"{key} not served by any method of tag client {tkey!r}")
            elif n > 1:
                rec.violation("operation:served_by_several_methods", feats, case, f"{key}: {hits[key]}")
        for key, names in hits.items():
            if key not in opset:
                rec.violation("operation:unexpected_on_tag", feats, case, f"{key} via {names} on tag client {tkey!r}")
        # two operations served by one method
        by_method: dict[str, set] = {}
        for key, names in hits.items():
            for nme in names:
                by_method.setdefault(nme, set()).add(key)
        for nme, keys in by_method.items():
            if len(keys) > 1:
                rec.violation("method:serves_several_operations", feats, case, f"{nme}: {sorted(keys)}")
    for extra in props - set(expected):
        if by_prop.get(extra):
            rec.violation("tag:unexpected_client", feats, case, extra)
    for cname, c in surface.get("clients", {}).items():
        for name, cnt in (c.get("defs_in_source") or {}).items():
            if cnt > 1:
                rec.violation("method:duplicate_definition_shadows", feats, case, f"{cname}.{name} defined {cnt}x")
    # naming strategy on collision-free inputs
    if "opid_collision" not in d.features:
        names_by_seg = {}
        for m in disc["methods"]:
            for q in m["requests"]:
                parts = [x for x in q[1].split("/") if x]
                if parts:
                    names_by_seg[(q[0], parts[0])] = m["method"]
        for op in d.ops:
            got = names_by_seg.get((op["method"], op["seg"]))
            if got is None:
                continue
            rec.count("strategy_name_checks")
            oid = op.get("operationId")
            if strategy == "path" or not oid:
                ok = got.startswith(op["method"].lower()) and op["seg"] in got
                exp = f"{op['method'].lower()}_…{op['seg']}…"
            elif strategy == "clean" and oid.endswith(f"_{op['seg']}_res_{op['method'].lower()}"):
                exp = snake(oid[: -len(f"_{op['seg']}_res_{op['method'].lower()}")])
                # the FastAPI suffix only matches when the path has no further segments
                ok = got == exp or got == snake(oid)
            else:
                exp = snake(oid)
                ok = got == exp
            if not ok and keyword.iskeyword(exp) or exp in ("none", "true", "false", "match", "case", "type"):
                # a name that is a Python keyword cannot be a method name: the escaped spelling follows the strategy
                ok = ok or got in (exp + "_", "_" + exp)
            if not ok:
                rec.violation(f"method:name_not_following_strategy:{strategy}", feats, case, f"operationId {oid!r} -> {got!r}, expected {exp!r}")


def mk_doc(ctx: Ctx, allow: set[str]) -> specgen.Doc:
    rng = ctx.rng
    d = specgen.generate(rng, allow=allow, prof={"ops": (2, 8), "opid_shapes": True, "p_dup_opid": 0.25 if rng.random() < 0.4 else 0.0,
                                                 "p_stream": 0.1, "ntags": 4, "schemas": (2, 4), "p_multi_response_media": 0.15,
                                                 "p_nullable_response": 0.15, "p_component_refs": 0.3, "p_range_2xx": 0.08})
    if rng.random() < 0.35:
        for path, item in d.doc["paths"].items():
            for meth, op in item.items():
                if isinstance(op, dict) and "responses" in op and rng.random() < 0.6:
                    tv = list(rng.choice(TAG_VARIANTS))
                    if rng.random() < 0.25:
                        # one operation listing two spellings of one tag: it belongs to that tag's client ONCE
                        tv = list(rng.choice([["datasources", "DataSources"], ["petstore", "petStore"], ["user_admin", "User Admin", "useradmin"],
                                              ["data_sources", "datasources"], ["PETS", "pets"]]))
                        rng.shuffle(tv)
                        d.features.add("one_operation_two_tag_spellings")
                    op["tags"] = tv
                    for e in d.ops:
                        if e["path"] == path and e["method"] == meth.upper():
                            e["tags"] = tv
        d.features.add("tag_spelling_variants")
    if len(d.ops) >= 2 and rng.random() < 0.12:
        # two long tags that agree in their first ~110 characters (generated specs carry whole sentences as tags): two clients
        stem = "Customer Relationship Management Accounts Receivable Reconciliation And Settlement Reporting Service For The European Region "
        a, b = rng.sample(d.ops, 2)
        for e, tag in ((a, stem + "Alpha"), (b, stem + "Beta Two")):
            e["tags"] = [tag]
            d.doc["paths"][e["path"]][e["method"].lower()]["tags"] = [tag]
        d.features.add("long_tags_with_common_prefix")
    if "tag_named_like_client_member" in allow and d.ops:
        # a tag spelled like something APIClient / MockAPIClient use themselves (constructor argument, attribute, method)
        e = rng.choice(d.ops)
        tag = rng.choice(["self", "transport", "_transport", "close", "request", "Transport", "Self"])
        e["tags"] = [tag]
        d.doc["paths"][e["path"]][e["method"].lower()]["tags"] = [tag]
        d.features.add("tag_named_like_client_member")
    if "multi_tag" in allow and len(d.ops) >= 2 and rng.random() < 0.5:
        # operation A carries [X, Y]; operation B has Y (or a spelling variant) as FIRST tag and an operationId that
        # derives to the same method name: both live in client Y and must get distinct names there
        a, b = rng.sample(d.ops, 2)
        if a.get("operationId"):
            x, y = rng.sample(["pets", "store", "users", "billing"], 2)
            yb = rng.choice([y, y.title(), y.upper()])
            recased = (re.sub(r"([a-z0-9])([A-Z])", r"\1_\2", a["operationId"]).lower() if a["operationId"] != a["operationId"].lower()
                       else "".join(w.title() if i else w for i, w in enumerate(a["operationId"].split("_"))))
            for e, tags, oid in ((a, [x, y], a["operationId"]), (b, [yb], rng.choice([a["operationId"], recased]))):
                e["tags"], e["operationId"] = tags, oid
                node = d.doc["paths"][e["path"]][e["method"].lower()]
                node["tags"], node["operationId"] = tags, oid
            d.features.update({"multi_tag", "opid_collision", "multi_tag_name_collision"})
    return d


def run_batch(ctx: Ctx, items: list[dict]) -> None:
    rec = ctx.rec
    root = ctx.scratch.new("proj")
    acc = []
    for it in items:
        d: specgen.Doc = it["doc"]
        pkg = f"c{it['n']}"
        it["pkg"] = pkg
        case = {"doc": d.doc, "ops": d.ops, "strategy": it["strategy"], "rendering": it["rendering"], "features": sorted(d.features)}
        it["case"] = case
        feats = sorted(d.features & it["trigger"])
        it["feats"] = feats
        n0 = len(_contract["bad"])
        res = genrun.generate(d.doc, root, pkg, None, strategy=it["strategy"], rendering=it["rendering"],
                              spec_path=genrun.write_spec(d.doc, root / f"spec{it['n']}", it["rendering"]))
        tags = {t for o in d.ops for t in o["tags"]}
        nt = len(d.ops) >= 2 or len(tags) >= 2
        if not res.ok:
            rec.case(case, nontrivial=False)
            rec.count("generations_rejected")
            rec.seen("rejections", (res.error or "")[:100])
            continue
        rec.case(case, nontrivial=nt)
        rec.seen("strategies", it["strategy"])
        rec.seen("renderings", it["rendering"])
        if it["rendering"] != "json":
            rec.count("docs_yaml")
        if "opid_collision" in d.features:
            rec.count("docs_with_opid_collision")
        if "multi_tag" in d.features:
            rec.count("docs_multi_tag")
        if "multi_tag_name_collision" in d.features:
            rec.count("docs_multi_tag_name_collision")
        skipped = [w for w in res.warnings if "Skipping operation" in w]
        if skipped:
            rec.violation("generation:operation_silently_skipped", feats, case, skipped[0])
        for dup in _contract["bad"][n0:]:
            rec.violation("contract:dedup_leaves_duplicate_method_names", feats, case, str(dup))
        acc.append(it)
    rec.counters["dedup_contract_evals"] = _contract["evals"]
    if not acc:
        return
    job = {"root": str(root), "packages": [{"pkg": i["pkg"], "core": i["pkg"] + ".core"} for i in acc], "actions": ["surface", "discover"]}
    out = genrun.run_probe(job, root / "probe")
    for it in acc:
        o = out
        if "probe_error" in out:
            o = genrun.run_probe(dict(job, packages=[{"pkg": it["pkg"], "core": it["pkg"] + ".core"}]), root / f"p{it['n']}")
            if "probe_error" in o:
                rec.violation("probe:crash", it["feats"], it["case"], o["probe_error"][-400:])
                continue
        po = o["packages"][it["pkg"]]
        judge(it["doc"], po["discover"], po["surface"], it["strategy"], rec, it["feats"], it["case"])
    if len(rec.samples) < 2 and "probe_error" not in out:
        it = acc[0]
        rec.sample({"paths": {p: sorted(k for k in v if k != "parameters") for p, v in it["doc"].doc["paths"].items()},
                    "strategy": it["strategy"], "rendering": it["rendering"],
                    "discovered": [[m["tag"], m["method"], m["requests"]] for m in out["packages"][it["pkg"]]["discover"]["methods"]][:8]})


def run_shard(ctx: Ctx) -> None:
    install_contract()
    total = 20 if ctx.quick else 500
    bs = 10
    for b in range(0, total, bs):
        items = []
        for k in range(bs):
            trig: set[str] = set()
            r = ctx.rng.random()
            if r < 0.3:
                trig = {"multi_tag"}
            elif r < 0.36:
                trig = {"tag_named_like_client_member"}
            items.append({"doc": mk_doc(ctx, trig), "n": ctx.shard * 100000 + b + k, "trigger": trig,
                          "strategy": ctx.rng.choice(["operationId", "clean", "path"]), "rendering": ctx.rng.choice(RENDERINGS)})
        run_batch(ctx, items)


def replay(ctx: Ctx, file: dict) -> None:
    install_contract()
    c = file["case"]
    d = specgen.Doc(c["doc"], {}, c["ops"], set(c.get("features", [])))
    run_batch(ctx, [{"doc": d, "n": 1, "trigger": set(file.get("features", [])), "strategy": c["strategy"], "rendering": c["rendering"]}])
