"""C04 — request fidelity: what the caller passes is what goes on the wire.

Wire capture: the probe drives every generated operation, in a fresh interpreter, through the package's own
HttpxTransport whose httpx.AsyncClient is built on an httpx.MockTransport; the captured httpx.Request is compared with
an expected request derived from the expectation model and the concrete argument values (never from generator helpers).
Every subset of the optional arguments is exercised for operations with <= 4 optionals (sampled above).
"""
from __future__ import annotations

import itertools
import json
from urllib.parse import parse_qs

from .. import common, genrun, instgen, refmodel, shapes, specgen
from ..common import Ctx

LEVEL = "exploration"
SHARDS = {"quick": 16, "thorough": 16}
FLOOR = {"quick": 900, "thorough": 20000}
REQUIRED_COUNTERS = ["calls_made", "requests_captured", "query_params_checked", "header_params_checked", "path_params_checked",
                     "bodies_checked_json", "optional_omitted_checked", "path_level_params_seen", "path_values_needing_encoding",
                     "raw_path_segments_checked"]
RULE = ("operations from the grammar (5 HTTP methods; path/query/header parameters incl. path-level ones; required/optional; scalar, "
        "array, enum, date values; JSON/form/multipart/octet bodies) x every subset of the optional arguments (<=4 optionals, sampled "
        "above) x value draws; case = (operation, argument assignment); non-trivial = the call supplies >=1 non-path argument or a body")
ASSUMPTIONS = ["httpx.MockTransport sees the request as it would leave httpx", "model-typed bodies are built with the package's own "
               "structure_from_dict (C03/C16 decide the converter)"]

PATH_VALUES = ["abc", "A-1_b.c~", "42", "x"]
# values that need percent-encoding to stay ONE path segment that the server decodes back to the caller's value
PATH_VALUES_RESERVED = ["two words", "ünï", "a/b", "a?b=c", "a#frag", "100%", "..", ".", "a%2Fb", "semi;colon", "q&a", "plus+sign", "a.b", "..x"]
TRIGGERS: list[set[str]] = [{"cookie_param"}, {"multi_request_media"}]


def value_for(rng, e: dict, d: specgen.Doc):
    k = e["kind"]
    if k == "string":
        if e["in"] == "path":
            if "path_value_reserved" in d.features and rng.random() < 0.7:
                return rng.choice(PATH_VALUES_RESERVED)
            return rng.choice(PATH_VALUES)
        if e["in"] in ("header", "cookie"):
            return rng.choice(["v1", "two words", "a=b;c", "W/\"etag\""]) if e["in"] == "header" else rng.choice(["abc123", "tok-9"])
        return rng.choice(["v1", "two words", "ünï", "a&b=c"])
    if k == "integer":
        return rng.choice([0, 7, -3, 123456])
    if k == "boolean":
        return rng.random() < 0.5
    if k == "array_string":
        return rng.choice([["a"], ["a", "b c"], ["x", "y", "z"]])
    if k == "date":
        return rng.choice(instgen.DATES)
    if k == "enum_ref":
        return rng.choice(d.sexp[e["target"]]["values"])
    if k == "number":
        return rng.choice([0.5, -2.25, 1e6, 3.0])
    if k == "uuid":
        return rng.choice(["12345678-1234-5678-1234-567812345678", "00000000-0000-0000-0000-000000000001"])
    if k == "datetime":
        return rng.choice(instgen.DT)
    if k == "array_integer":
        return rng.choice([[1], [0, -7], [3, 2, 1]])
    if k == "enum_inline":
        return rng.choice(["asc", "desc", "by-name"])
    if k == "array_enum_inline":
        return [rng.choice(["new", "in-progress", "done"]) for _ in range(rng.randint(1, 3))]
    if k == "array_enum_ref":
        vals = d.sexp[e["target"]]["values"]
        return [rng.choice(vals) for _ in range(rng.randint(1, 3))]
    raise AssertionError(e)


def body_for(rng, b: dict, d: specgen.Doc):
    m = b["media"]
    if m == "application/json":
        v = instgen.instance(rng, b["schema"], d.sexp, rng.choice(["min", "max", "random"]))
        if isinstance(v, list) and v and rng.random() < 0.6:
            v = v + [v[0]] + v[:1]      # the same element several times (the probe passes ONE shared instance)
        return v
    if m == "application/x-www-form-urlencoded":
        return {"a": rng.choice(["x", "y z"]), "b": rng.choice([1, 22])}
    if m == "multipart/form-data":
        return {"file": rng.choice([b"hello", b"\x00\x01binary"]).hex()}
    return rng.choice([b"raw-bytes", b"\x00\xff"]).hex()


def _num_eq(a: str, b: str) -> bool:
    try:
        return float(a) == float(b) and ("." in a or "." in b or "e" in a.lower() or "e" in b.lower())
    except ValueError:
        return False


def make_calls(ctx: Ctx, d: specgen.Doc) -> list[dict]:
    rng = ctx.rng
    calls = []
    for op in d.ops:
        optional = [p for p in op["params"] if not p["required"]]
        body = op["body"]
        if len(optional) <= 4:
            subsets = [list(c) for n in range(len(optional) + 1) for c in itertools.combinations(range(len(optional)), n)]
        else:
            subsets = [[i for i in range(len(optional)) if rng.random() < 0.5] for _ in range(10)] + [[], list(range(len(optional)))]
        if len(subsets) > (6 if ctx.quick else 16):
            keep = [subsets[0], subsets[-1]] + rng.sample(subsets[1:-1], (4 if ctx.quick else 14))
            subsets = keep
        primary = next((c for c in op["responses"] if c.startswith("2")), "200")
        for si, sub in enumerate(subsets):
            supplied = []
            for p in op["params"]:
                if p["required"] or optional.index(p) in sub:
                    supplied.append({"name": p["name"], "in": p["in"], "value": value_for(rng, p, d), "kind": p["kind"]})
            args = [{"name": a["name"], "in": a["in"], "value": a["value"]} for a in supplied]
            with_body = None
            if body and (body["required"] or si % 2 == 0):
                with_body = body_for(rng, body, d)
                args.append({"body": with_body})
            calls.append({"id": f"{op['seg']}-{si}", "seg": op["seg"], "http": op["method"], "args": args,
                          "plan": {"status": specgen.status_int(primary), "json": {}},
                          "_exp": {"op": op, "supplied": supplied, "body": with_body, "omitted": [optional[i] for i in range(len(optional)) if i not in sub]}})
    return calls


def judge(d: specgen.Doc, call: dict, res: dict, rec, feats, case_base) -> None:
    exp = call["_exp"]
    op = exp["op"]
    case = dict(case_base, call={"seg": call["seg"], "http": call["http"], "args": call["args"]})
    if any(a["in"] == "path" and str(a["value"]) in (".", "..") for a in exp["supplied"]):
        feats = list(feats) + ["path_value_dot_segment"]   # a value that IS a dot-segment (RFC 3986 5.2.4)
    if any(a["in"] == "path" and str(a["value"]) in PATH_VALUES_RESERVED for a in exp["supplied"]):
        rec.count("path_values_needing_encoding")
    nt = any(a["in"] != "path" for a in exp["supplied"]) or exp["body"] is not None
    rec.case({"doc": common.chash(case_base["doc"]), "call": case["call"]}, nontrivial=nt)
    rec.count("calls_made")
    if "error" in res:
        rec.violation(f"call:{res['error']}", feats, case, json.dumps(res.get("exc", {}))[:300])
        return
    for u in res.get("unmatched", []):
        loc = next((a["in"] for a in exp["supplied"] if a["name"] == u), "body" if u == "<body>" else "?")
        rec.violation(f"signature:no_parameter_for:{loc}", feats, case, f"declared {u!r} has no matching argument in {res.get('sig', {}).get('params')}")
    reqs = res["requests"]
    if len(reqs) != 1:
        exc = res["outcome"].get("exc", {}) if res["outcome"]["kind"] == "raise" else {}
        rec.violation(f"wire:request_count_{len(reqs)}", feats + ([f"exc_{exc.get('type')}"] if exc else []), case,
                      f"{len(reqs)} requests; outcome {json.dumps(res['outcome'])[:300]}")
        return
    rec.count("requests_captured")
    q = reqs[0]
    if q["method"] != op["method"]:
        rec.violation("wire:http_method", feats, case, f"{q['method']} != {op['method']}")
    ep = refmodel.expected_path(op["path"], exp["supplied"])
    rec.count("path_params_checked", sum(1 for a in exp["supplied"] if a["in"] == "path"))
    if q["path"] != ep:
        rec.violation("wire:path", feats, case, f"{q['path']!r} != expected {ep!r}")
    # structure of the raw request target: one raw segment per template segment, each decoding to the expected text
    from urllib.parse import unquote
    raw = q.get("raw_path", "")
    raw_path_only = raw.split("?", 1)[0]
    tsegs = op["path"].split("/")
    vals = {a["name"]: str(a["value"]) for a in exp["supplied"] if a["in"] == "path"}
    esegs = [vals.get(t[1:-1], t) if t.startswith("{") and t.endswith("}") else t for t in tsegs]
    rsegs = raw_path_only.split("/")
    rec.count("raw_path_segments_checked", len(esegs))
    if len(rsegs) != len(esegs) or any(unquote(r_) != e_ for r_, e_ in zip(rsegs, esegs)):
        rec.violation("wire:path_structure", feats, case, f"raw target {raw!r}: segments {rsegs} != expected (decoded) {esegs}")
    # query
    eq = sorted(refmodel.expected_query(exp["supplied"]))
    gq = sorted((k, v) for k, v in q["query"])
    rec.count("query_params_checked", len(eq))
    def same(a, b) -> bool:     # a date-time may be spelled differently (Z / +00:00 / fractional zeros), 3.0 may be sent as 3.0 or 3
        if a == b:
            return True
        if a[0] != b[0]:
            return False
        return refmodel.jdiff(a[1], b[1]) is None or _num_eq(a[1], b[1])

    if len(gq) != len(eq) or not all(any(same(x, y) for y in gq) for x in eq) or not all(any(same(x, y) for y in eq) for x in gq):
        missing = [x for x in eq if not any(same(x, y) for y in gq)]
        extra = [x for x in gq if not any(same(y, x) for y in eq)]
        kinds = sorted({a["kind"] for a in exp["supplied"] if a["in"] == "query" and any(m[0] == a["name"] for m in missing)})
        rec.violation("wire:query" + (":missing" if missing and not extra else ":differs"), feats + [f"qkind_{k}" for k in kinds], case,
                      f"missing {missing} unexpected {extra}")
    # headers
    hdrs = {}
    for k, v in q["headers"]:
        hdrs.setdefault(k.lower(), []).append(v)
    for a in exp["supplied"]:
        if a["in"] == "header":
            rec.count("header_params_checked")
            got = hdrs.get(a["name"].lower())
            want = refmodel.wire_scalar(a["value"])
            if got != [want] and not (got and len(got) == 1 and (refmodel.jdiff(want, got[0]) is None or _num_eq(want, got[0]))):
                rec.violation("wire:header", feats, case, f"{a['name']}: expected [{refmodel.wire_scalar(a['value'])!r}] got {got!r}")
        if a["in"] == "cookie":
            cookies = ";".join(hdrs.get("cookie", []))
            if f"{a['name']}={a['value']}" not in cookies:
                rec.violation("wire:cookie_missing", feats, case, f"{a['name']}: cookie header {cookies!r}")
    # the Cookie header carries the cookie arguments of THIS call and nothing else (no authentication is configured): a
    # cookie left as None, or supplied to an earlier call on the same client, must not be there
    sent = [tuple(x.strip().split("=", 1)) for h in hdrs.get("cookie", []) for x in h.split(";") if "=" in x]
    want_c = {(a["name"], str(a["value"])) for a in exp["supplied"] if a["in"] == "cookie"}
    rec.count("cookie_headers_compared")
    stray = [c for c in sent if tuple(c) not in want_c]
    if stray:
        earlier = call.get("_earlier_cookie_calls") or []
        rec.violation("wire:cookie_not_supplied_by_this_call", feats, dict(case, preceding_calls=earlier[-3:]),
                      f"cookie header carries {stray}; this call supplied {sorted(want_c)}")
    for o in exp["omitted"]:
        rec.count("optional_omitted_checked")
        if o["in"] == "header" and o["name"].lower() in hdrs:
            rec.violation("wire:omitted_header_sent", feats, case, f"{o['name']}: {hdrs[o['name'].lower()]}")
        if o["in"] == "query" and any(k == o["name"] for k, _ in q["query"]):
            rec.violation("wire:omitted_query_sent", feats, case, o["name"])
    if any(p.get("path_level") for p in op["params"]):
        rec.count("path_level_params_seen")
    # body
    b = op["body"]
    body_hex = q.get("body_hex") or ""
    raw = bytes.fromhex(body_hex)
    if exp["body"] is None:
        if raw not in (b"", b"null"):
            rec.violation("wire:body_sent_without_argument", feats, case, raw[:100].decode("utf-8", "replace"))
        return
    m = b["media"]
    ct = (q.get("content_type") or "")
    if m == "application/json":
        rec.count("bodies_checked_json")
        if not ct.startswith("application/json"):
            rec.violation("wire:body_content_type", feats, case, f"{ct!r} for a JSON body")
        try:
            got = json.loads(raw)
        except Exception as e:
            rec.violation("wire:body_not_json", feats, case, f"{raw[:120]!r}: {e}")
            return
        diff = refmodel.jdiff(exp["body"], got)
        if diff:
            rec.violation("wire:body_json_differs", feats, case, diff[:300])
    elif m == "application/x-www-form-urlencoded":
        rec.count("bodies_checked_form")
        if not ct.startswith("application/x-www-form-urlencoded"):
            rec.violation("wire:body_content_type", feats, case, f"{ct!r} for a form body")
        got = {k: v[0] for k, v in parse_qs(raw.decode()).items()}
        want = {k: str(v) for k, v in exp["body"].items()}
        if got != want:
            rec.violation("wire:body_form_differs", feats, case, f"{got} != {want}")
    elif m == "multipart/form-data":
        rec.count("bodies_checked_multipart")
        if not ct.startswith("multipart/form-data"):
            rec.violation("wire:body_content_type", feats, case, f"{ct!r} for a multipart body")
        for name, hx in exp["body"].items():
            if bytes.fromhex(hx) not in raw or f'name="{name}"'.encode() not in raw:
                rec.violation("wire:body_multipart_part_missing", feats, case, name)
    else:
        rec.count("bodies_checked_octet")
        if not ct.startswith(m.split(";")[0]):
            rec.violation("wire:body_content_type:raw", feats, case, f"{ct!r} for a body declared as {m}")
        if raw != bytes.fromhex(exp["body"]):
            rec.violation("wire:body_bytes_differ", feats, case, f"{raw[:50]!r}")


def run_batch(ctx: Ctx, items: list[dict]) -> None:
    rec = ctx.rec
    root = ctx.scratch.new("proj")
    for it in items:
        d: specgen.Doc = it["doc"]
        pkg = f"c{it['n']}"
        case_base = {"doc": d.doc, "sexp": d.sexp, "ops": d.ops, "features": sorted(d.features)}
        feats = sorted(d.features & it["trigger"])
        res = genrun.generate(d.doc, root, pkg, None, spec_path=genrun.write_spec(d.doc, root / f"spec{it['n']}"))
        if not res.ok:
            rec.count("generations_rejected")
            continue
        for f in d.features:
            rec.seen("features", f)
        calls = it.get("calls") or make_calls(ctx, d)
        job = {"root": str(root), "packages": [{"pkg": pkg, "core": pkg + ".core"}], "actions": ["calls"],
               "calls": [{k: v for k, v in c.items() if not k.startswith("_")} for c in calls]}
        out = genrun.run_probe(job, root / f"probe{it['n']}")
        if "probe_error" in out:
            rec.count("probe_failed_diagnostic")   # import failures are C01's business
            rec.seen("probe_errors", out["probe_error"][-120:])
            continue
        po = out["packages"][pkg]["calls"]
        if po.get("errors"):
            rec.count("client_construct_errors_diagnostic")
            continue
        op_feats = getattr(d, "op_feats", None) or it.get("op_feats") or {}
        if op_feats:
            case_base["op_feats"] = op_feats
        cookie_calls: list[dict] = []
        for c in calls:
            r = po["results"].get(c["id"])
            if r is None:
                continue
            # calls share ONE client per package: what earlier calls supplied as cookies is part of this call's history
            c["_earlier_cookie_calls"] = list(cookie_calls)
            if any(a.get("in") == "cookie" for a in c["args"]):
                cookie_calls.append({"seg": c["seg"], "http": c["http"], "args": c["args"]})
            f2 = feats
            if op_feats:    # shape catalogue: attribute to the shape of THIS operation's body
                f2 = list(op_feats.get(c["seg"], [])) + ["shapes"]
                rec.count("shape_bodies_checked")
                rec.seen("body_shapes_exercised", c["_exp"]["op"].get("shape"))
            n0 = rec.counters.get("violations_raw", 0)
            judge(d, c, r, rec, f2, case_base)
            if op_feats and rec.counters.get("violations_raw", 0) > n0:
                rec.seen("body_shapes_failing", c["_exp"]["op"].get("shape"))
        if len(rec.samples) < 2 and calls:
            c = calls[0]
            r = po["results"].get(c["id"], {})
            rec.sample({"operation": {k: c["_exp"]["op"][k] for k in ("path", "method", "params", "body")}, "args": c["args"],
                        "captured_request": (r.get("requests") or [None])[0]})


def mk_doc(ctx: Ctx, trig: set[str]) -> specgen.Doc:
    # (cookie parameters were a trigger class until they were repaired: part of every document's grammar now)
    return specgen.generate(ctx.rng, allow=trig | {"cookie_param"}, prof={"ops": (2, 5), "p_param": 0.9, "p_body": 0.7, "schemas": (2, 5),
                                                       "p_multi_media": 0.6 if "multi_request_media" in trig else 0.0,
                                                       "styles": ["camel", "snake", "kebab", "keywordish"], "p_self_ref": 0.0, "p_union": 0.0,
                                                       "p_component_refs": 0.3, "p_range_2xx": 0.08})


def run_shard(ctx: Ctx) -> None:
    common.use_repo()
    total = 8 if ctx.quick else 130
    for b in range(total):
        trig: set[str] = set()
        r = ctx.rng.random()
        if r < 0.12:
            trig = TRIGGERS[0]
        elif r < 0.24:
            trig = TRIGGERS[1]
        doc = mk_doc(ctx, trig)
        if not trig and ctx.rng.random() < 0.35:
            doc.features.add("path_value_reserved")     # path arguments that need percent-encoding
        run_batch(ctx, [{"doc": doc, "n": ctx.shard * 100000 + b, "trigger": trig}])
    # the exhaustive shape catalogue as REQUEST bodies: every wrapper(wrapper(leaf)) as a required JSON body
    chunks = shapes.chunked(2 if ctx.quick else 3, 20)
    for ci, chunk in enumerate(chunks):
        if ctx.mine(ci):
            sd = shapes.request_document(chunk)
            calls = []
            for op in sd.ops:
                for k, mode in enumerate(["max", "random", "nulls", "min"]):
                    body = instgen.instance(ctx.rng, op["body"]["schema"], sd.sexp, mode)
                    calls.append({"id": f"{op['seg']}-{k}", "seg": op["seg"], "http": "POST", "args": [{"body": body}],
                                  "plan": {"status": 204, "content_hex": ""},
                                  "_exp": {"op": op, "supplied": [], "body": body, "omitted": []}})
            run_batch(ctx, [{"doc": sd, "n": ctx.shard * 100000 + 70000 + ci, "trigger": set(), "calls": calls}])


def replay(ctx: Ctx, file: dict) -> None:
    """Re-runs exactly the recorded call (same document, same arguments)."""
    common.use_repo()
    c = file["case"]
    d = specgen.Doc(c["doc"], c["sexp"], c["ops"], set(c["features"]))
    call = c.get("call")
    calls = None
    if call:
        op = next(o for o in c["ops"] if o["seg"] == call["seg"] and o["method"] == call["http"])
        supplied, body = [], None
        for a in call["args"]:
            if "body" in a:
                body = a["body"]
            else:
                kind = next((p["kind"] for p in op["params"] if p["name"] == a["name"] and p["in"] == a["in"]), "string")
                supplied.append(dict(a, kind=kind))
        names = {(a["name"], a["in"]) for a in supplied}
        omitted = [p for p in op["params"] if not p["required"] and (p["name"], p["in"]) not in names]
        primary = next((k for k in op["responses"] if k.startswith("2")), "200")
        calls = [{"id": "replay", "seg": call["seg"], "http": call["http"], "args": call["args"], "plan": {"status": specgen.status_int(primary), "json": {}},
                  "_exp": {"op": op, "supplied": supplied, "body": body, "omitted": omitted}}]
        pre = []
        for k, pc in enumerate(c.get("preceding_calls") or []):     # the history the recorded call depended on
            pop = next(o for o in c["ops"] if o["seg"] == pc["seg"] and o["method"] == pc["http"])
            psup = [dict(a, kind=next((p["kind"] for p in pop["params"] if p["name"] == a["name"] and p["in"] == a["in"]), "string"))
                    for a in pc["args"] if "body" not in a]
            pbody = next((a["body"] for a in pc["args"] if "body" in a), None)
            pprim = next((k2 for k2 in pop["responses"] if k2.startswith("2")), "200")
            pre.append({"id": f"pre{k}", "seg": pc["seg"], "http": pc["http"], "args": pc["args"], "plan": {"status": specgen.status_int(pprim), "json": {}},
                        "_exp": {"op": pop, "supplied": psup, "body": pbody, "omitted": []}})
        calls = pre + calls
    run_batch(ctx, [{"doc": d, "n": 1, "trigger": set(file.get("features", [])), "calls": calls}])
