"""C17 — transport applies defaults, per-request headers and auth as documented.

Wire capture: every request goes through the real HttpxTransport (repo's core/http_transport.py) whose
httpx.AsyncClient is constructed with an httpx.MockTransport (injected by substituting httpx.AsyncClient with
a subclass for the duration of the constructor call — no attribute of the transport is touched).
Oracle: independent merge model (case-insensitive header map: defaults < per-request < plugins in order;
API key in configured location/name; caller's params, cookies, body untouched).
"""
from __future__ import annotations

import asyncio
import itertools
import json
from typing import Any

from .. import common
from ..common import Ctx

LEVEL = "exploration"
SHARDS = {"quick": 8, "thorough": 16}
FLOOR = {"quick": 3000, "thorough": 60000}
REQUIRED_COUNTERS = ["sequence_requests", "requests_captured", "cfg_with_query_key", "cfg_with_cookie_key", "cfg_case_overlap", "concurrent_requests",
                     "concurrent_batches_out_of_launch_order", "oauth_rotation_requests"]
RULE = ("every ordered selection of 0-3 plugins out of {Bearer, ApiKey-header, ApiKey-query, ApiKey-cookie, HeadersAuth, "
        "OAuth2, OAuth2+refresh} x header-overlap pattern x caller params/cookies/body presence x bearer_token shortcut; "
        "a case = (plugins, pattern, caller kwargs); non-trivial = >=1 plugin or overlapping header names")
EXHAUSTIVE = {"quick": True, "thorough": True}
ASSUMPTIONS = ["httpx.MockTransport sees the request exactly as it would leave httpx"]

PLUGINS = ["bearer", "key_header", "key_query", "key_cookie", "headers", "oauth", "oauth_refresh"]


class CIMap:
    """Case-insensitive header model: last writer wins, regardless of spelling."""

    def __init__(self) -> None:
        self.d: dict[str, tuple[str, str]] = {}

    def set(self, name: str, value: str) -> None:
        self.d[name.lower()] = (name, value)

    def items(self):
        return [(n, v) for n, v in self.d.values()]


def mk_plugin(mods, kind: str, pattern: dict, log: list):
    P = mods["plugins"]
    if kind == "bearer":
        return P.BearerAuth("tokB")
    if kind == "key_header":
        return P.ApiKeyAuth("K1", location="header", name=pattern["key_header_name"])
    if kind == "key_query":
        return P.ApiKeyAuth("K2", location="query", name="api_key")
    if kind == "key_cookie":
        return P.ApiKeyAuth("K3", location="cookie", name="sid")
    if kind == "headers":
        return P.HeadersAuth(dict(pattern["auth_headers"]))
    if kind == "oauth":
        return P.OAuth2Auth("tokO")
    if kind == "oauth_refresh":
        async def cb(old: str) -> str:
            log.append(("refresh", old))
            return "tokR"

        return P.OAuth2Auth("tokO2", refresh_callback=cb)
    raise AssertionError(kind)


def model(plugs: tuple[str, ...], pattern: dict, req: dict, bearer_shortcut: bool):
    h = CIMap()
    for n, v in (pattern["defaults"] or {}).items():
        h.set(n, v)
    for n, v in (req.get("headers") or {}).items():
        h.set(n, ("true" if v else "false") if isinstance(v, bool) else str(v))   # wire rendering of non-text values
    q = dict(req.get("params") or {})
    ck = dict(req.get("cookies") or {})
    for k in plugs:
        if k == "bearer":
            h.set("Authorization", "Bearer tokB")
        elif k == "key_header":
            h.set(pattern["key_header_name"], "K1")
        elif k == "key_query":
            q["api_key"] = "K2"
        elif k == "key_cookie":
            ck["sid"] = "K3"
        elif k == "headers":
            for n, v in pattern["auth_headers"].items():
                h.set(n, v)
        elif k == "oauth":
            h.set("Authorization", "Bearer tokO")
        elif k == "oauth_refresh":
            h.set("Authorization", "Bearer tokR")
    if not plugs and bearer_shortcut:
        h.set("Authorization", "Bearer tokS")
    return h, q, ck


PATTERNS = [
    {"name": "disjoint", "defaults": {"X-Def": "d"}, "req_headers": {"X-Req": "r"},
     "auth_headers": {"X-Auth": "a"}, "key_header_name": "X-API-Key"},
    {"name": "same_name", "defaults": {"X-A": "d", "Authorization": "Basic zzz"}, "req_headers": {"X-A": "r"},
     "auth_headers": {"X-A": "a"}, "key_header_name": "X-A"},
    {"name": "none", "defaults": None, "req_headers": None,
     "auth_headers": {"X-Auth": "a", "X-Auth2": "b"}, "key_header_name": "X-API-Key"},
    {"name": "case_variant_default_vs_request", "defaults": {"X-A": "d", "X-Keep": "k"}, "req_headers": {"x-a": "r"},
     "auth_headers": {"X-Auth": "a"}, "key_header_name": "X-API-Key", "case": True},
    {"name": "case_variant_request_vs_plugin", "defaults": {"X-Def": "d"}, "req_headers": {"authorization": "r", "x-auth": "r2", "x-api-key": "r3"},
     "auth_headers": {"X-Auth": "a"}, "key_header_name": "X-API-Key", "case": True},
    # per-request header values that are not text (generated header parameters of type integer / boolean arrive like this)
    {"name": "non_string_request_values", "defaults": {"X-Def": "d", "X-N": "default"}, "req_headers": {"X-Flag": True, "x-n": 7, "X-Off": False, "X-F": 1.5},
     "auth_headers": {"X-Auth": "a"}, "key_header_name": "X-API-Key", "case": True},
    {"name": "case_variant_plugin_vs_plugin", "defaults": {"X-Def": "d"}, "req_headers": {"X-Req": "r"},
     "auth_headers": {"x-api-key": "fromheaders", "AUTHORIZATION": "fromheaders"}, "key_header_name": "X-API-Key", "case": True},
]


def case_overlap_effective(plugs, pattern, req, shortcut: bool = False) -> bool:
    """True iff two contributions really name one header in different spellings."""
    seen: dict[str, set[str]] = {}

    def add(n):
        seen.setdefault(n.lower(), set()).add(n)

    for n in (pattern["defaults"] or {}):
        add(n)
    for n in (req.get("headers") or {}):
        add(n)
    for k in plugs:
        if k in ("bearer", "oauth", "oauth_refresh"):
            add("Authorization")
        elif k == "key_header":
            add(pattern["key_header_name"])
        elif k == "headers":
            for n in pattern["auth_headers"]:
                add(n)
    if shortcut and not plugs:
        add("Authorization")
    return any(len(v) > 1 for v in seen.values())



def load():
    common.use_repo()
    import pyopenapi_gen.core.http_transport as ht
    import pyopenapi_gen.core.auth.plugins as plugins
    import pyopenapi_gen.core.auth.base as base

    return {"ht": ht, "plugins": plugins, "base": base}


async def run_case(ctx: Ctx, mods, case: dict) -> None:
    import httpx

    rec = ctx.rec
    plugs = tuple(case["plugins"])
    pattern = PATTERNS[case["pattern"]]
    captured: list[httpx.Request] = []

    def handler(request: httpx.Request) -> httpx.Response:
        captured.append(request)
        return httpx.Response(200, json={"ok": True})

    class CapturingClient(httpx.AsyncClient):
        def __init__(self, *a: Any, **kw: Any) -> None:
            kw["transport"] = httpx.MockTransport(handler)
            super().__init__(*a, **kw)

    log: list = []
    objs = [mk_plugin(mods, k, pattern, log) for k in plugs]
    if not objs:
        auth = None
    elif len(objs) == 1 and case["wrap"] == "bare":
        auth = objs[0]
    else:
        auth = mods["base"].CompositeAuth(*objs)
    req: dict[str, Any] = {}
    if pattern["req_headers"] is not None:
        req["headers"] = dict(pattern["req_headers"])
    elif case["explicit_none"]:
        req["headers"] = None
    if case["params"]:
        req["params"] = {"q": "1", "page": "2"}
    elif case["explicit_none"]:
        req["params"] = None
    if case["cookies"]:
        req["cookies"] = {"c1": "v1"}
    if case["body"]:
        # present-but-falsy bodies are bodies too ([] / {} / 0 / False / "")
        req["json"] = [{"k": [1, 2, {"z": None}]}, [], {}, 0, False, ""][(case["pattern"] + len(plugs) + int(case["params"])) % 6]
    elif case["explicit_none"]:
        req["json"] = None
        req["data"] = None
    kw_before = json.dumps(req, sort_keys=True)
    orig = httpx.AsyncClient
    httpx.AsyncClient = CapturingClient  # type: ignore[misc]
    try:
        t = mods["ht"].HttpxTransport("https://api.test", auth=auth,
                                      bearer_token="tokS" if case["shortcut"] else None,
                                      default_headers=dict(pattern["defaults"]) if pattern["defaults"] else None)
    finally:
        httpx.AsyncClient = orig  # type: ignore[misc]
    feats = set()
    if "key_query" in plugs:
        feats.add("apikey_query")
    if "key_cookie" in plugs:
        feats.add("apikey_cookie")
    if case_overlap_effective(plugs, pattern, req, case["shortcut"]):
        feats.add("header_case_variant_overlap")
        rec.count("cfg_case_overlap")
    if "key_query" in plugs:
        rec.count("cfg_with_query_key")
    if "key_cookie" in plugs:
        rec.count("cfg_with_cookie_key")
    rec.case(case, nontrivial=bool(plugs) or pattern["name"] != "disjoint")
    import warnings

    try:
        with warnings.catch_warnings():
            warnings.simplefilter("ignore")
            resp = await t.request("POST", "/op1/x", **req)
    except Exception as e:
        rec.violation(f"raise:{type(e).__name__}", feats, case, repr(e))
        await t.close()
        return
    await t.close()
    if len(captured) != 1:
        rec.violation("wire:request_count", feats, case, f"{len(captured)} requests")
        return
    rec.count("requests_captured")
    r = captured[0]
    h, q, ck = model(plugs, pattern, req, case["shortcut"])
    for n, v in h.items():
        got = r.headers.get_list(n)
        rec.count("header_expectations")
        if got != [v]:
            which = "auth" if n.lower() in ("authorization", "x-api-key", "x-auth", "x-auth2") else "plain"
            rec.violation(f"wire:header_mismatch:{which}", feats, case, f"header {n!r}: expected [{v!r}] got {got!r}")
    got_q = dict(r.url.params.multi_items())
    if got_q != q:
        miss = sorted(set(q) - set(got_q))
        rec.violation("wire:query_mismatch" + (":apikey_missing" if miss == ["api_key"] else ""), feats, case,
                      f"expected {q} got {got_q}")
    got_ck = {}
    for part in ",".join(r.headers.get_list("cookie")).replace(",", ";").split(";"):
        if "=" in part:
            a, b = part.strip().split("=", 1)
            got_ck[a] = b
    if got_ck != ck:
        miss = sorted(set(ck) - set(got_ck))
        rec.violation("wire:cookie_mismatch" + (":apikey_missing" if miss == ["sid"] else ""), feats, case,
                      f"expected {ck} got {got_ck}")
    if case["body"]:
        try:
            if json.loads(r.content) != req["json"] or type(json.loads(r.content)) is not type(req["json"]):
                rec.violation("wire:body_changed", feats, case, r.content[:200].decode("utf-8", "replace"))
        except Exception as e:
            rec.violation("wire:body_unreadable", feats, case, repr(e))
    elif r.content not in (b"",):
        rec.violation("wire:body_appeared", feats, case, r.content[:200].decode("utf-8", "replace"))
    if r.method != "POST" or r.url.path != "/op1/x":
        rec.violation("wire:method_or_path", feats, case, f"{r.method} {r.url}")
    if json.dumps(req, sort_keys=True) != kw_before:
        rec.violation("caller_kwargs_mutated", feats, case, json.dumps(req, sort_keys=True))
    if "oauth_refresh" in plugs:
        rec.count("refresh_callbacks", len(log))
        if len(log) != plugs.count("oauth_refresh"):
            rec.violation("refresh_callback_count", feats, case, f"{len(log)} refresh calls for one request")
    if len(rec.samples) < 3 and plugs:
        rec.sample({"case": case, "wire_headers": {k: v for k, v in r.headers.items() if k not in ("user-agent", "accept-encoding")},
                    "wire_url": str(r.url)})


SEQ_HEADERS = [None, {"X-Req": "r1", "x-a": "over"}, None, {"X-Other": "o"}, {"X-A": "again"}, None]


async def run_sequence(ctx: Ctx, mods, plugs: tuple[str, ...], pattern_i: int, shortcut: bool) -> None:
    """Several requests through ONE transport instance: every request must be judged on its own (no state carried over),
    and the caller's default_headers / per-request dicts must not be mutated."""
    import httpx

    rec = ctx.rec
    pattern = PATTERNS[pattern_i]
    captured: list[httpx.Request] = []

    def handler(request: httpx.Request) -> httpx.Response:
        captured.append(request)
        return httpx.Response(200, json={})

    class CapturingClient(httpx.AsyncClient):
        def __init__(self, *a: Any, **kw: Any) -> None:
            kw["transport"] = httpx.MockTransport(handler)
            super().__init__(*a, **kw)

    log: list = []
    objs = [mk_plugin(mods, k, pattern, log) for k in plugs]
    auth = None if not objs else (objs[0] if len(objs) == 1 else mods["base"].CompositeAuth(*objs))
    defaults = dict(pattern["defaults"]) if pattern["defaults"] else None
    defaults_before = json.dumps(defaults, sort_keys=True)
    orig = httpx.AsyncClient
    httpx.AsyncClient = CapturingClient  # type: ignore[misc]
    try:
        t = mods["ht"].HttpxTransport("https://api.test", auth=auth, bearer_token="tokS" if shortcut else None, default_headers=defaults)
    finally:
        httpx.AsyncClient = orig  # type: ignore[misc]
    case = {"sequence": True, "plugins": list(plugs), "pattern": pattern_i, "shortcut": shortcut}
    feats = ["sequence"]
    for i, hdrs in enumerate(SEQ_HEADERS):
        req: dict[str, Any] = {}
        if hdrs is not None:
            req["headers"] = dict(hdrs)
        if i % 2:
            req["params"] = {"q": str(i)}
        before = json.dumps(req, sort_keys=True)
        captured.clear()
        rec.case(dict(case, step=i), nontrivial=True)
        rec.count("sequence_requests")
        try:
            await t.request("GET", "/op1/x", **req)
        except Exception as e:
            rec.violation(f"sequence:raise:{type(e).__name__}", feats, dict(case, step=i), repr(e))
            continue
        if len(captured) != 1:
            rec.violation("sequence:request_count", feats, dict(case, step=i), str(len(captured)))
            continue
        r = captured[0]
        h, q, ck = model(plugs, dict(pattern, req_headers=hdrs), req, shortcut)
        for n, v in h.items():
            got = r.headers.get_list(n)
            if got != [v]:
                rec.violation("sequence:header_mismatch", feats, dict(case, step=i), f"request {i}: header {n!r} expected [{v!r}] got {got!r}")
        expected_names = {n.lower() for n, _ in h.items()}
        for n in r.headers:
            if n.lower().startswith("x-") and n.lower() not in expected_names:
                rec.violation("sequence:stale_header_from_earlier_request", feats, dict(case, step=i),
                              f"request {i}: unexpected header {n!r}={r.headers[n]!r}")
        if dict(r.url.params.multi_items()) != q:
            rec.violation("sequence:query_mismatch", feats, dict(case, step=i), f"{dict(r.url.params.multi_items())} != {q}")
        if json.dumps(req, sort_keys=True) != before:
            rec.violation("sequence:caller_kwargs_mutated", feats, dict(case, step=i), json.dumps(req))
        if json.dumps(defaults, sort_keys=True) != defaults_before:
            rec.violation("sequence:default_headers_mutated", feats, dict(case, step=i), json.dumps(defaults))
    await t.close()


async def run_concurrent(ctx: Ctx, mods, plugs: tuple[str, ...], pattern_i: int, shortcut: bool, n: int, sched: int) -> None:
    """n requests in flight at once on ONE transport (asyncio.gather), the fake server and the refresh callback yielding a
    schedule-dependent number of times so that completions interleave differently per schedule.  Every request carries a
    unique id and is judged on its own against the model: nothing of another in-flight request may show up in it."""
    import random

    import httpx

    rec = ctx.rec
    pattern = PATTERNS[pattern_i]
    rng = random.Random(f"{plugs}-{pattern_i}-{shortcut}-{sched}")
    delays = [rng.randrange(0, 6) for _ in range(n)]
    captured: dict[str, httpx.Request] = {}
    entry_order: list[str] = []
    extra: list[str] = []

    async def handler(request: httpx.Request) -> httpx.Response:
        rid = request.url.params.get("rid", "?")
        entry_order.append(rid)
        if rid in captured:
            extra.append(rid)
        captured[rid] = request
        for _ in range(delays[int(rid)] if rid.isdigit() and int(rid) < n else 0):
            await asyncio.sleep(0)
        return httpx.Response(200, json={"rid": rid})

    class CapturingClient(httpx.AsyncClient):
        def __init__(self, *a: Any, **kw: Any) -> None:
            kw["transport"] = httpx.MockTransport(handler)
            super().__init__(*a, **kw)

    log: list = []
    objs = [mk_plugin(mods, k, pattern, log) for k in plugs]
    for o in objs:
        cb = getattr(o, "refresh_callback", None)
        if cb is not None:
            async def slow_cb(old: str, _cb=cb) -> str:
                for _ in range(rng.randrange(0, 4)):
                    await asyncio.sleep(0)
                return await _cb(old)
            o.refresh_callback = slow_cb
    auth = None if not objs else (objs[0] if len(objs) == 1 else mods["base"].CompositeAuth(*objs))
    defaults = dict(pattern["defaults"]) if pattern["defaults"] else None
    defaults_before = json.dumps(defaults, sort_keys=True)
    orig = httpx.AsyncClient
    httpx.AsyncClient = CapturingClient  # type: ignore[misc]
    try:
        t = mods["ht"].HttpxTransport("https://api.test", auth=auth, bearer_token="tokS" if shortcut else None, default_headers=defaults)
    finally:
        httpx.AsyncClient = orig  # type: ignore[misc]
    case = {"concurrent": True, "plugins": list(plugs), "pattern": pattern_i, "shortcut": shortcut, "n": n, "schedule": sched}
    feats = ["concurrent"]
    reqs = []
    for i in range(n):
        hdrs = {"X-Req-Id": f"id{i}"}
        if i % 2:
            hdrs["x-a"] = f"over{i}"
        if i % 3 == 0:
            hdrs[f"X-Only-{i}"] = "1"
        reqs.append({"headers": hdrs, "params": {"rid": str(i)}})
    before = json.dumps(reqs, sort_keys=True)

    async def one(i: int):
        for _ in range(rng.randrange(0, 3)):
            await asyncio.sleep(0)
        return await t.request("GET", "/op1/x", **reqs[i])

    rec.case(case, nontrivial=True)
    rec.count("concurrent_batches")
    results = await asyncio.gather(*[one(i) for i in range(n)], return_exceptions=True)
    await t.close()
    rec.seen("interleavings_observed", ",".join(entry_order))
    if entry_order != sorted(entry_order, key=int):
        rec.count("concurrent_batches_out_of_launch_order")
    for i, res in enumerate(results):
        rec.count("concurrent_requests")
        if isinstance(res, BaseException):
            rec.violation(f"concurrent:raise:{type(res).__name__}", feats, dict(case, request=i), repr(res))
            continue
        try:
            if res.json().get("rid") != str(i):
                rec.violation("concurrent:response_of_another_request", feats, dict(case, request=i), f"request {i} got the response of {res.json()}")
        except Exception as e:  # noqa
            rec.violation("concurrent:response_unreadable", feats, dict(case, request=i), repr(e))
        r = captured.get(str(i))
        if r is None:
            rec.violation("concurrent:request_not_sent", feats, dict(case, request=i), f"ids seen: {sorted(captured)}")
            continue
        h, q, ck = model(plugs, dict(pattern, req_headers=reqs[i]["headers"]), reqs[i], shortcut)
        for nme, v in h.items():
            got = r.headers.get_list(nme)
            if got != [v]:
                rec.violation("concurrent:header_mismatch", feats, dict(case, request=i), f"request {i}: header {nme!r} expected [{v!r}] got {got!r}")
        expected_names = {nme.lower() for nme, _ in h.items()}
        for nme in r.headers:
            if nme.lower().startswith("x-") and nme.lower() not in expected_names:
                rec.violation("concurrent:header_of_another_request", feats, dict(case, request=i), f"request {i}: unexpected header {nme!r}={r.headers[nme]!r}")
        if dict(r.url.params.multi_items()) != q:
            rec.violation("concurrent:query_mismatch", feats, dict(case, request=i), f"{dict(r.url.params.multi_items())} != {q}")
    if extra:
        rec.violation("concurrent:request_sent_twice", feats, case, str(extra))
    if json.dumps(reqs, sort_keys=True) != before:
        rec.violation("concurrent:caller_kwargs_mutated", feats, case, "per-request dicts changed")
    if json.dumps(defaults, sort_keys=True) != defaults_before:
        rec.violation("concurrent:default_headers_mutated", feats, case, json.dumps(defaults))


async def run_oauth_rotation(ctx: Ctx, mods, script: list, composite: bool) -> None:
    """A request sequence through ONE OAuth2Auth with a refresh callback that sometimes rotates the token and sometimes
    declines (returns its argument, '' or None).  Reference model: the plugin keeps the last token it was given; every
    request carries that token and the callback is consulted with it."""
    import httpx

    rec = ctx.rec
    seen: list[httpx.Request] = []
    calls: list[str] = []
    step = {"i": 0}

    async def cb(current: str):
        calls.append(current)
        act = script[step["i"]]
        await asyncio.sleep(0)
        return current if act == "same" else ("" if act == "empty" else (None if act == "none" else act))

    class CapturingClient(httpx.AsyncClient):
        def __init__(self, *a: Any, **kw: Any) -> None:
            kw["transport"] = httpx.MockTransport(lambda r: (seen.append(r), httpx.Response(200, json={}))[1])
            super().__init__(*a, **kw)

    oauth = mods["plugins"].OAuth2Auth("t0", refresh_callback=cb)
    auth = mods["base"].CompositeAuth(mods["plugins"].ApiKeyAuth("K2", location="query", name="api_key"), oauth) if composite else oauth
    orig = httpx.AsyncClient
    httpx.AsyncClient = CapturingClient  # type: ignore[misc]
    try:
        t = mods["ht"].HttpxTransport("https://api.test", auth=auth)
    finally:
        httpx.AsyncClient = orig  # type: ignore[misc]
    case = {"oauth_rotation": True, "script": script, "composite": composite}
    feats = ["oauth_rotation"]
    rec.case(case, nontrivial=True)
    current = "t0"
    for i, act in enumerate(script):
        step["i"] = i
        seen.clear()
        rec.count("oauth_rotation_requests")
        try:
            await t.request("GET", "/op1/x")
        except Exception as e:  # noqa
            rec.violation(f"oauth:raise:{type(e).__name__}", feats, dict(case, step=i), repr(e))
            break
        if len(calls) != i + 1 or calls[-1] != current:
            rec.violation("oauth:callback_not_given_the_current_token", feats, dict(case, step=i), f"callback calls so far {calls}, current token {current!r}")
        if act not in ("same", "empty", "none"):
            current = act
        got = seen[0].headers.get_list("authorization") if seen else None
        if got != [f"Bearer {current}"]:
            rec.violation("oauth:stale_or_wrong_token_sent", feats, dict(case, step=i), f"request {i}: expected Bearer {current}, sent {got}")
    await t.close()


async def run_context_manager(ctx: Ctx, mods) -> None:
    """`async with HttpxTransport(...)`: the same object inside, requests work, the underlying client is closed afterwards;
    an ApiKeyAuth with an unknown location is refused when used, not silently ignored."""
    import httpx

    rec = ctx.rec
    seen: list[httpx.Request] = []

    class CapturingClient(httpx.AsyncClient):
        def __init__(self, *a: Any, **kw: Any) -> None:
            kw["transport"] = httpx.MockTransport(lambda r: (seen.append(r), httpx.Response(200, json={}))[1])
            super().__init__(*a, **kw)

    orig = httpx.AsyncClient
    httpx.AsyncClient = CapturingClient  # type: ignore[misc]
    try:
        t = mods["ht"].HttpxTransport("https://api.test", default_headers={"X-Def": "d"})
        bad = mods["ht"].HttpxTransport("https://api.test", auth=mods["plugins"].ApiKeyAuth("K", location="body", name="k"))
    finally:
        httpx.AsyncClient = orig  # type: ignore[misc]
    case = {"context_manager": True}
    rec.case(case, nontrivial=True)
    rec.count("context_manager_runs")
    async with t as inner:
        if inner is not t:
            rec.violation("context:enter_returns_another_object", ["context_manager"], case, repr(inner))
        await inner.request("GET", "/op1/x")
    if len(seen) != 1 or seen[0].headers.get("x-def") != "d":
        rec.violation("context:request_inside_with_block", ["context_manager"], case, f"{len(seen)} requests")
    if not t._client.is_closed:
        rec.violation("context:client_left_open_after_exit", ["context_manager"], case, "underlying httpx client still open")
    try:
        await bad.request("GET", "/op1/x")
        rec.violation("auth:unknown_api_key_location_ignored", ["context_manager"], case, "request went out without the key and without an error")
    except ValueError:
        pass
    except Exception as e:  # noqa
        rec.violation(f"auth:unknown_api_key_location:{type(e).__name__}", ["context_manager"], case, repr(e))
    await bad.close()


def all_cases(ctx: Ctx):
    sels = [()]
    for k in ((1, 2, 3) if ctx.quick else (1, 2, 3, 4)):
        sels += list(itertools.permutations(PLUGINS, k))
    i = 0
    for plugs in sels:
        for pi in range(len(PATTERNS)):
            for params, cookies, body in itertools.product([False, True], repeat=3):
                for wrap in (("bare", "composite") if len(plugs) == 1 else ("composite",)):
                    for shortcut in ((False, True) if len(plugs) <= 1 else (False,)):
                        for explicit_none in ((False, True) if not (params and cookies and body) and len(plugs) <= 2 else (False,)):
                            yield i, {"plugins": list(plugs), "pattern": pi, "params": params, "cookies": cookies,
                                      "body": body, "wrap": wrap, "shortcut": shortcut, "explicit_none": explicit_none}
                            i += 1


def run_shard(ctx: Ctx) -> None:
    mods = load()

    async def go() -> None:
        for i, case in all_cases(ctx):
            if ctx.mine(i):
                await run_case(ctx, mods, case)
        j = 0
        for plugs in [(), ("bearer",), ("key_query", "headers", "bearer"), ("headers",), ("oauth_refresh", "key_header")]:
            for pi in range(len(PATTERNS)):
                for shortcut in (False, True):
                    j += 1
                    if ctx.mine(j):
                        await run_sequence(ctx, mods, plugs, pi, shortcut)
        if ctx.shard == 0:
            await run_context_manager(ctx, mods)
        acts = ["same", "empty", "none", "t1", "t2"]
        scripts = [list(s_) for s_ in itertools.product(acts, repeat=3)] if ctx.quick else [list(s_) for s_ in itertools.product(acts, repeat=4)]
        for si, script in enumerate(scripts):
            j += 1
            if ctx.mine(j):
                await run_oauth_rotation(ctx, mods, script, composite=bool(si % 2))
        conc = [(), ("bearer",), ("oauth_refresh",), ("key_query", "headers", "bearer"), ("oauth_refresh", "key_header"), ("key_cookie", "oauth_refresh", "headers")]
        if not ctx.quick:
            conc += list(itertools.permutations(PLUGINS, 2))
        for plugs in conc:
            for pi in range(len(PATTERNS)):
                for shortcut in (False, True):
                    for sched in range(3 if ctx.quick else 25):
                        j += 1
                        if ctx.mine(j):
                            await run_concurrent(ctx, mods, plugs, pi, shortcut, 6 if sched % 2 else 3, sched)

    asyncio.run(go())


def replay(ctx: Ctx, file: dict) -> None:
    mods = load()
    c = file["case"]
    if c.get("oauth_rotation"):
        asyncio.run(run_oauth_rotation(ctx, mods, c["script"], c["composite"]))
    elif c.get("context_manager"):
        asyncio.run(run_context_manager(ctx, mods))
    elif c.get("concurrent"):
        asyncio.run(run_concurrent(ctx, mods, tuple(c["plugins"]), c["pattern"], c["shortcut"], c["n"], c["schedule"]))
    elif c.get("sequence"):
        asyncio.run(run_sequence(ctx, mods, tuple(c["plugins"]), c["pattern"], c["shortcut"]))
    else:
        asyncio.run(run_case(ctx, mods, c))
