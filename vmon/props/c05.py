"""C05 — response fidelity: declared success bodies come back as typed values.

The fake server is the httpx.MockTransport handler inside the probe, told per call which status, media type and body to
answer. Oracles: no raise; structural isinstance of the returned value against typing.get_type_hints of the method;
re-serialisation with the package's own unstructure_to_dict equals the body (tolerant JSON equality); a declared response
without content returns None; text / binary verbatim; streams yield exactly the sent items, in order.
"""
from __future__ import annotations

import json

from .. import common, genrun, instgen, refmodel, shapes, specgen
from ..common import Ctx

LEVEL = "exploration"
SHARDS = {"quick": 16, "thorough": 16}
FLOOR = {"quick": 400, "thorough": 8000}
REQUIRED_COUNTERS = ["alternative_media_replies", "calls_made", "returns_checked", "type_checks", "reserialisations_compared", "no_content_checked",
                     "secondary_2xx_checked", "stream_calls", "text_responses", "ndjson_responses"]
RULE = ("operations x every declared 2xx status (primary and secondary) x media types (json, event-stream, octet-stream; trigger classes "
        "text/plain and ndjson) x conforming bodies (objects, arrays, aliases, primitives); case = (operation, status, body); "
        "non-trivial = the response has content, or is the content-less response of an operation that also has one with content")
ASSUMPTIONS = ["bodies are produced by the harness' instance generator from the expectation model",
               "unions are exercised by C14, not here (p_union=0)"]

TRIGGERS: list[set[str]] = [{"multi_2xx_different_schema"}]


def flatten(v):
    """probe 'jsonable' form -> plain JSON for comparison"""
    if isinstance(v, dict):
        if "__dataclass__" in v:
            return v.get("unstructured", {"__unstructure_error__": v.get("unstructure_error")})
        if "__enum__" in v:
            return v["value"]
        if "__iso__" in v:
            return v["__iso__"]
        if "__uuid__" in v:
            return v["__uuid__"]
        if "__bytes_hex__" in v:
            import base64
            return base64.b64encode(bytes.fromhex(v["__bytes_hex__"])).decode()    # binary inside a JSON body is base64 text
        return {k: flatten(x) for k, x in v.items()}
    if isinstance(v, list):
        return [flatten(x) for x in v]
    return v


def make_calls(ctx: Ctx, d: specgen.Doc) -> list[dict]:
    rng = ctx.rng
    calls = []
    for op in d.ops:
        two = [c for c in op["responses"] if c.startswith("2")]
        has_content = any(op["responses"][c].get("content") for c in two)
        for ci, code in enumerate(two):
            r = op["responses"][code]
            for rep in range(2 if ctx.quick else 4):
                plan = {"status": specgen.status_int(code, rng)}
                exp = {"op": op, "code": code, "kind": r.get("content"), "primary": ci == 0, "has_content_sibling": has_content}
                kind = r.get("content")
                if kind is None:
                    plan["content_hex"] = ""
                elif kind == "json":
                    body = instgen.instance(rng, r["schema"], d.sexp, rng.choice(["min", "max", "random"]))
                    if r["schema"].get("nullable"):
                        # a nullable body: the two boundary documents are null and the smallest conforming object
                        body = [None, instgen.instance(rng, dict(r["schema"], nullable=False), d.sexp, "min")][rep % 2]
                        ctx.rec.count("nullable_bodies_null" if body is None else "nullable_bodies_minimal")
                    plan["json"] = body
                    exp["body"] = body
                elif kind == "sse":
                    n = rng.randint(0, 3)
                    items = [instgen.instance(rng, r["schema"], d.sexp, "random") for _ in range(n)]
                    sp = rng.choice(["", " "])          # the space after the colon is optional in SSE
                    nl = rng.choice(["\n", "\r\n"])
                    text = "".join(f"data:{sp}{json.dumps(it)}{nl}{nl}" for it in items)
                    raw = text.encode()
                    cut = sorted(rng.sample(range(1, max(2, len(raw))), min(2, max(0, len(raw) - 1)))) if len(raw) > 2 else []
                    chunks = [raw[a:b] for a, b in zip([0] + cut, cut + [len(raw)])]
                    plan["chunks_hex"] = [c.hex() for c in chunks]
                    plan["headers"] = {"content-type": "text/event-stream"}
                    exp["items"] = items
                elif kind == "binary":
                    raw = rng.choice([b"", b"abc", bytes(range(256)) * 3])
                    cut = sorted(rng.sample(range(1, max(2, len(raw))), min(2, max(0, len(raw) - 1)))) if len(raw) > 2 else []
                    chunks = [raw[a:b] for a, b in zip([0] + cut, cut + [len(raw)])]
                    plan["chunks_hex"] = [c.hex() for c in chunks]
                    plan["headers"] = {"content-type": "application/octet-stream"}
                    exp["bytes"] = raw.hex()
                elif kind == "ndjson":
                    n = rng.randint(0, 3)
                    items = [instgen.instance(rng, r["schema"], d.sexp, "random") if r["schema"].get("kind") == "ref" else {"k": 1} for _ in range(n)]
                    plan["chunks_hex"] = ["".join(json.dumps(it) + "\n" for it in items).encode().hex()]
                    plan["headers"] = {"content-type": "application/x-ndjson"}
                    exp["items"] = items
                elif kind == "text":
                    t = rng.choice(["hello", "", "multi\nline ü"])
                    plan["text"] = t
                    plan["headers"] = {"content-type": "text/plain; charset=utf-8"}
                    exp["text"] = t
                calls.append({"id": f"{op['seg']}-{code}-{rep}", "seg": op["seg"], "http": op["method"], "args": [], "plan": plan, "_exp": exp})
                if kind is None:
                    break
            # the other content types declared on the same response: one reply each, announced by Content-Type
            for ai, alt in enumerate(r.get("alt") or []):
                plan = {"status": specgen.status_int(code, rng), "headers": {"content-type": alt["media"]}}
                exp = {"op": op, "code": code, "kind": alt["content"], "primary": ci == 0, "has_content_sibling": True, "alt_media": alt["media"]}
                if alt["content"] == "json":
                    body = instgen.instance(rng, alt["schema"], d.sexp, "random")
                    plan["content_hex"] = json.dumps(body).encode().hex()
                    exp["body"] = body
                else:
                    t = rng.choice(["hello", "multi\nline ü", "{not json"])
                    plan["text"] = t
                    plan["headers"]["content-type"] = alt["media"] + "; charset=utf-8"
                    exp["text"] = t
                ctx.rec.count("alternative_media_replies")
                calls.append({"id": f"{op['seg']}-{code}-alt{ai}", "seg": op["seg"], "http": op["method"], "args": [], "plan": plan, "_exp": exp})
    return calls


def judge(d: specgen.Doc, call: dict, res: dict, rec, feats, case_base) -> None:
    exp = call["_exp"]
    op = exp["op"]
    kind = exp["kind"]
    case = dict(case_base, call={"seg": call["seg"], "http": call["http"], "plan": call["plan"]})
    nt = kind is not None or exp["has_content_sibling"]
    rec.case({"doc": common.chash(case_base["doc"]), "call": case["call"]}, nontrivial=nt)
    rec.count("calls_made")
    tag = "primary" if exp["primary"] else "secondary"
    if not exp["primary"]:
        rec.count("secondary_2xx_checked")
    if "error" in res:
        rec.violation(f"call:{res['error']}", feats, case, json.dumps(res.get("exc", {}))[:300])
        return
    out = res["outcome"]
    if out["kind"] == "raise":
        e = out["exc"]
        rec.violation(f"response:{tag}:{kind}:raises:{e['type']}", feats, case, f"{e['msg'][:250]} @ {e.get('line', '')[:120]}")
        return
    rec.count("returns_checked")
    if kind is None:
        rec.count("no_content_checked")
        if out["kind"] == "stream":
            if out["items"]:
                rec.violation(f"response:{tag}:no_content:yields_items", feats, case, json.dumps(out["items"])[:200])
        elif out.get("value") is not None:
            rec.violation(f"response:{tag}:no_content:returns_value", feats, case, json.dumps(out.get("value"))[:200])
        return
    if kind == "json":
        if out["kind"] != "return":
            rec.violation(f"response:{tag}:json:not_a_return", feats, case, json.dumps(out)[:200])
            return
        rec.count("type_checks")
        if not out.get("type_ok", True):
            rec.violation(f"response:{tag}:json:wrong_python_type", feats, case,
                          f"returned {out.get('pytype')} for annotation {out.get('ret_ann')}")
        rec.count("reserialisations_compared")
        got = flatten(out["value"])
        diff = refmodel.jdiff(exp["body"], got)
        if diff:
            rec.violation(f"response:{tag}:json:reserialisation_differs", feats, case, diff[:300])
    elif kind in ("sse", "ndjson"):
        rec.count("stream_calls")
        if kind == "ndjson":
            rec.count("ndjson_responses")
        if out["kind"] != "stream":
            rec.violation(f"response:{tag}:{kind}:not_a_stream", feats, case, json.dumps(out)[:200])
            return
        got = flatten(out["items"])
        # items may be yielded as parsed values or as JSON text
        norm = []
        for gi, g in enumerate(got):
            want_str = gi < len(exp["items"]) and isinstance(exp["items"][gi], str)
            if isinstance(g, str) and not want_str:
                try:
                    norm.append(json.loads(g))
                    continue
                except Exception:
                    pass
            norm.append(g)
        diff = refmodel.jdiff(exp["items"], norm)
        if diff:
            rec.violation(f"response:{tag}:{kind}:items_differ", feats, case, diff[:300])
    elif kind == "binary":
        rec.count("stream_calls")
        if out["kind"] == "stream":
            got = "".join(i.get("__bytes_hex__", "") if isinstance(i, dict) else "" for i in out["items"])
        else:
            v = out.get("value")
            got = v.get("__bytes_hex__") if isinstance(v, dict) else None
        if got != exp["bytes"]:
            rec.violation(f"response:{tag}:binary:bytes_differ", feats, case, f"{str(got)[:60]} != {exp['bytes'][:60]}")
    elif kind == "text":
        rec.count("text_responses")
        v = out.get("value") if out["kind"] == "return" else None
        if v != exp["text"]:
            rec.violation(f"response:{tag}:text:differs", feats, case, f"{v!r} != {exp['text']!r}")


def mk_doc(ctx: Ctx, trig: set[str]) -> specgen.Doc:
    kinds = ["sse", "binary", "text", "ndjson"]
    d = specgen.generate(ctx.rng, allow=trig, prof={"ops": (2, 5), "p_param": 0.3, "p_body": 0.2, "schemas": (2, 5), "p_multi2xx": 0.5,
                                                    "p_stream": 0.3, "stream_kinds": kinds, "p_nullable_response": 0.3, "json_media_variants": True,
                                                    "p_multi_response_media": 0.25, "p_component_refs": 0.3, "p_range_2xx": 0.12,
                                                    "styles": ["camel", "snake", "kebab", "keywordish"], "p_self_ref": 0.0, "p_union": 0.0})
    return d


def run_doc(ctx: Ctx, it: dict) -> None:
    rec = ctx.rec
    root = ctx.scratch.new("proj")
    d: specgen.Doc = it["doc"]
    pkg = f"c{it['n']}"
    case_base = {"doc": d.doc, "sexp": d.sexp, "ops": d.ops, "features": sorted(d.features)}
    feats = sorted(d.features)
    res = genrun.generate(d.doc, root, pkg, None, spec_path=genrun.write_spec(d.doc, root / f"spec{it['n']}"))
    if not res.ok:
        rec.count("generations_rejected")
        return
    for f in d.features:
        rec.seen("features", f)
    calls = make_calls(ctx, d)
    job = {"root": str(root), "packages": [{"pkg": pkg, "core": pkg + ".core"}], "actions": ["calls"],
           "calls": [{k: v for k, v in c.items() if not k.startswith("_")} for c in calls]}
    out = genrun.run_probe(job, root / "probe")
    if "probe_error" in out:
        rec.count("probe_failed_diagnostic")
        return
    po = out["packages"][pkg]["calls"]
    if po.get("errors"):
        rec.count("client_construct_errors_diagnostic")
        return
    op_feats = getattr(d, "op_feats", None) or it.get("op_feats") or {}
    if op_feats:
        case_base["op_feats"] = op_feats
    for c in calls:
        r = po["results"].get(c["id"])
        if r is not None:
            f2 = feats
            if "multi_response_media" in f2:
                # attribute to the operation, not the document: only replies of operations that declare several content
                # types on one response belong to that trigger class
                f2 = [f for f in f2 if f != "multi_response_media"]
                if any(rr.get("alt") for rr in c["_exp"]["op"]["responses"].values()):
                    f2 = f2 + ["op_several_content_types_on_one_response"]
            if op_feats:
                # shape catalogue: a violation is attributed to the shape of THIS operation's response
                f2 = list(op_feats.get(c["seg"], [])) + ["shapes"]
                rec.count("shape_responses_checked")
                rec.seen("response_shapes_exercised", c["_exp"]["op"].get("shape"))
            n0 = rec.counters.get("violations_raw", 0)
            judge(d, c, r, rec, f2, case_base)
            if op_feats and rec.counters.get("violations_raw", 0) > n0:
                rec.seen("response_shapes_failing", c["_exp"]["op"].get("shape"))
    if len(rec.samples) < 2 and calls:
        c = calls[0]
        r = po["results"].get(c["id"], {})
        rec.sample({"operation": {k: c["_exp"]["op"][k] for k in ("path", "method", "responses")}, "server_plan": c["plan"],
                    "outcome": r.get("outcome")})


def run_shard(ctx: Ctx) -> None:
    common.use_repo()
    total = 8 if ctx.quick else 130
    for b in range(total):
        trig: set[str] = set()
        r = ctx.rng.random()
        if r < 0.15:
            trig = TRIGGERS[0]
        run_doc(ctx, {"doc": mk_doc(ctx, trig), "n": ctx.shard * 100000 + b, "trigger": trig})
    # the exhaustive shape catalogue as RESPONSE bodies: every wrapper(wrapper(leaf)) directly under a 200 response
    chunks = shapes.chunked(2 if ctx.quick else 3, 20)
    for ci, chunk in enumerate(chunks):
        if ctx.mine(ci):
            run_doc(ctx, {"doc": shapes.response_document(chunk), "n": ctx.shard * 100000 + 70000 + ci, "trigger": set()})


def replay(ctx: Ctx, file: dict) -> None:
    common.use_repo()
    c = file["case"]
    d = specgen.Doc(c["doc"], c["sexp"], c["ops"], set(c["features"]))
    run_doc(ctx, {"doc": d, "n": 1, "trigger": set(file.get("features", [])), "op_feats": c.get("op_feats")})
