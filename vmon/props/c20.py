"""C20 — name derivation is total, valid and collision-safe.

(i) function level: every string of length <= 4 over a 14-character alphabet (plus random Unicode) through each of the
seven derivation functions, judged by icontract postconditions attached to the real functions (non-empty, identifier,
not a keyword).  (ii) namespace level: pairs of distinct spec names placed in one namespace, generated for real and read
back by introspection in a fresh interpreter (see nsprobe in vmon/probe.py).
"""
from __future__ import annotations

import itertools
import re
from typing import Any

from .. import common, contracts
from ..common import Ctx

LEVEL = "exploration"
NEEDS_DEPS = True
SHARDS = {"quick": 16, "thorough": 16}
FLOOR = {"quick": 20000, "thorough": 40000}
REQUIRED_COUNTERS = ["contract_evals_sanitize_class_name", "contract_evals_sanitize_module_name",
                     "contract_evals_sanitize_method_name", "contract_evals_sanitize_tag_class_name",
                     "contract_evals_sanitize_tag_attr_name", "contract_evals__generate_member_name_for_string_enum",
                     "contract_evals__generate_member_name_for_integer_enum"]
RULE = ("function level: all strings of length<=4 over the alphabet [a s i B 1 _ - space . $ / { é 日] (41370 strings) and random "
        "Unicode strings x 7 derivation functions; a case = (function, string); non-trivial = string is not already a valid "
        "lower-case identifier. namespace level: pairs of distinct names in one namespace generated for real (see DESIGN §4 C20)")
EXHAUSTIVE = {"quick": True, "thorough": True}
ASSUMPTIONS = ["function-level oracle = str.isidentifier() and not keyword.iskeyword(); validity inside a class body "
               "(e.g. Enum sunder names) is judged at namespace level by importing the generated code"]

ALPHABET = ["a", "s", "i", "B", "1", "_", "-", " ", ".", "$", "/", "{", "é", "日"]


# one representative per Unicode class that identifier syntax treats specially: decimal digits outside ASCII (Nd: may continue
# an identifier, may not start one), other numerics (No: ², ¾), letter-numbers (Nl: Ⅷ may start one), combining marks
# (Mn / Mc: continue only), connector punctuation (Pc), format characters (ZWJ / ZWNJ), compatibility forms (NFKC changes them)
UNICODE_EDGE = ["\u0662", "\u0968", "\uff12", "\u00b2", "\u00be", "\u2167", "\u0301", "\u093e", "\u203f", "\u200d", "\u200c",
                "\ufb01", "\u212b", "\u00aa", "\u0131", "\u00df", "\U0001d7d8"]


def all_strings(maxlen: int = 4):
    yield ""
    for n in range(1, maxlen + 1):
        for t in itertools.product(ALPHABET, repeat=n):
            yield "".join(t)
    import keyword as _kw
    for w in _kw.kwlist + _kw.softkwlist + ["print", "self", "cls"]:
        for t in {w, w.capitalize(), w.upper(), w + "_", "_" + w, w.capitalize() + " ", "-" + w.upper()}:
            yield t
    for c in UNICODE_EDGE:
        for t in (c, c * 4, c + "d", "-" + c, c + "x1", "a" + c, c + "\u062f", "_" + c, c + " " + c, "1" + c):
            yield t


def input_features(s: str) -> list[str]:
    f = []
    if not re.search(r"[A-Za-z0-9]", s):
        f.append("no_ascii_alnum")
    if not re.search(r"\w", s):
        f.append("no_word_char")
    if re.match(r"^[^A-Za-z]*[0-9]", s):
        f.append("digit_before_any_letter")
    if re.search(r"[^\x00-\x7f]", s):
        f.append("non_ascii")
    if s == "":
        f.append("empty_input")
    if re.sub(r"[\W]+", "_", s).lower().strip("_") in __import__("keyword").kwlist:
        f.append("keyword_after_lowering")
    return f


def run_function_level(ctx: Ctx) -> None:
    rec = ctx.rec
    contracts.install(raising=True)
    from pyopenapi_gen.core.utils import NameSanitizer
    from pyopenapi_gen.visit.model.enum_generator import EnumGenerator
    from pyopenapi_gen.core.writers.python_construct_renderer import PythonConstructRenderer

    eg = EnumGenerator(PythonConstructRenderer())
    fns: dict[str, Any] = {
        "sanitize_class_name": lambda s: NameSanitizer.sanitize_class_name(s),
        "sanitize_module_name": lambda s: NameSanitizer.sanitize_module_name(s),
        "sanitize_method_name": lambda s: NameSanitizer.sanitize_method_name(s),
        "sanitize_tag_class_name": lambda s: NameSanitizer.sanitize_tag_class_name(s),
        "sanitize_tag_attr_name": lambda s: NameSanitizer.sanitize_tag_attr_name(s),
        "_generate_member_name_for_string_enum": lambda s: eg._generate_member_name_for_string_enum(s),
        "_generate_member_name_for_integer_enum": lambda s: eg._generate_member_name_for_integer_enum(s, 7),
    }
    strings = [s for i, s in enumerate(all_strings()) if ctx.mine(i)]
    # random unicode strings
    pools = [(0x20, 0x7e), (0xa0, 0x24f), (0x370, 0x3ff), (0x400, 0x4ff), (0x3040, 0x30ff), (0x4e00, 0x4eff),
             (0x1f600, 0x1f64f), (0x2000, 0x206f), (0x0, 0x1f)]
    for _ in range(300 if ctx.quick else 5000):
        n = ctx.rng.randint(1, 12)
        lo_hi = [ctx.rng.choice(pools) for _ in range(n)]
        strings.append("".join(chr(ctx.rng.randint(lo, hi)) for lo, hi in lo_hi))
    for s in strings:
        nontriv = not (s.isidentifier() and s == s.lower())
        feats = input_features(s)
        for fname, fn in fns.items():
            rec.case(f"{fname}|{s}", nontrivial=nontriv)
            n0 = len(contracts.STATE.events)
            try:
                out = fn(s)
            except contracts.NameContractBroken:
                ev = contracts.STATE.events[-1] if len(contracts.STATE.events) > n0 else (fname, "?", repr(s), "?")
                rec.violation(f"fn:{fname}:{ev[1]}", feats, {"function": fname, "input": s}, f"{ev[2]} -> {ev[3]}")
                continue
            except Exception as e:
                rec.violation(f"fn:{fname}:raises:{type(e).__name__}", feats, {"function": fname, "input": s}, str(e)[:200])
                continue
            if len(rec.samples) < 3 and nontriv and s:
                rec.sample({"function": fname, "input": s, "result": out})
    for k, v in contracts.STATE.evals.items():
        rec.count(f"contract_evals_{k}", v)


def run_shard(ctx: Ctx) -> None:
    common.use_repo()
    run_function_level(ctx)
    try:
        from . import c20ns
    except ImportError:
        return
    c20ns.run_namespace_level(ctx)


def replay(ctx: Ctx, file: dict) -> None:
    common.use_repo()
    c = file["case"]
    if "function" not in c:
        from . import c20ns

        c20ns.replay(ctx, file)
        return
    contracts.install(raising=True)
    from pyopenapi_gen.core.utils import NameSanitizer
    from pyopenapi_gen.visit.model.enum_generator import EnumGenerator
    from pyopenapi_gen.core.writers.python_construct_renderer import PythonConstructRenderer

    eg = EnumGenerator(PythonConstructRenderer())
    f = c["function"]
    ctx.rec.case(c)
    try:
        if f.startswith("_generate_member_name_for_string"):
            eg._generate_member_name_for_string_enum(c["input"])
        elif f.startswith("_generate"):
            eg._generate_member_name_for_integer_enum(c["input"], 7)
        else:
            getattr(NameSanitizer, f)(c["input"])
    except contracts.NameContractBroken:
        ev = contracts.STATE.events[-1]
        ctx.rec.violation(f"fn:{f}:{ev[1]}", file.get("features", []), c, f"{ev[2]} -> {ev[3]}")
