"""C16 — bundled converter obeys round-trip laws for any mapped dataclass.

Workload: random dataclass type trees written out as *source modules* and imported (the way generated models reach the
converter), with/without Meta key maps (bijective; keyword-like keys; keys colliding after case-fold); instances and
their JSON built by an independent encoder. Laws checked on the real /repo/src/pyopenapi_gen/core converter:
  structure_from_dict(d, T) == x   and   unstructure_to_dict(x) == d      (total documents: exactly)
  failures -> ValueError naming the offending field;  DataclassSerializer.serialize terminates on cyclic instance
  graphs and returns json.dumps-able data without None-valued keys (icontract postcondition on the real function).
History effect: every batch of types is run in several first-use orders in fresh child processes and the
per-case outcomes are compared.
"""
from __future__ import annotations

import base64
import dataclasses
import datetime as dt
import importlib
import json
import os
import subprocess
import sys
from pathlib import Path
from typing import Any

from .. import common
from ..common import Ctx

LEVEL = "exploration"
NEEDS_DEPS = True
SHARDS = {"quick": 16, "thorough": 16}
FLOOR = {"quick": 900, "thorough": 20000}
REQUIRED_COUNTERS = ["law_decode_checks", "law_encode_checks", "failure_injections", "serializer_contract_evals",
                     "cyclic_graphs", "order_comparisons", "trees_with_meta", "partial_documents", "modules_with_postponed_annotations",
                     "modules_with_quoted_annotations", "trees_with_nullable_field_defaulting_to_a_value"]
RULE = ("random dataclass type trees (depth<=4; list/dict/Optional/nested dataclass; leaves str,int,float,bool,bytes,datetime,date; "
        "Meta maps none/bijective/keyword-like/case-fold-colliding) as imported source modules x random instances; each batch in "
        "3 first-use orders in fresh processes; a case = (tree, instance, law); non-trivial = instance has a nested container, "
        "formatted leaf or renamed key")
ASSUMPTIONS = ["laws stated for total documents; partial documents may re-encode absent keys with the field's declared default",
               "runs on /repo/src/pyopenapi_gen/core, which C12 shows is byte-identical to what clients receive"]

LEAVES = ["str", "int", "float", "bool", "bytes", "datetime", "date", "time", "UUID", "Colour", "Level"]   # + two Enum leaves
ENUMS = {"Colour": ("str", [("RED", "red"), ("DARK_BLUE", "dark-blue"), ("EMPTY", ""), ("NULLISH", "null")]),
         "Level": ("int", [("LOW", 0), ("HIGH", 10), ("NEG", -1)])}
KEYWORDISH = ["class", "from", "id", "type", "import", "return", "def", "pass"]


LITERAL_DEFAULTS = {"int": "3", "str": "'dflt'", "bool": "True", "float": "1.5"}


# ------------------------------------------------------------------ type-tree generation (harness side, no repo code)
def gen_type(rng, depth: int, classes: list[dict], prefix: str) -> dict:
    """Type descriptor: {"k": leaf|list|dict|opt|dc, ...}"""
    r = rng.random()
    if depth <= 0 or r < 0.35:
        return {"k": "leaf", "t": rng.choice(LEAVES)}
    if r < 0.5:
        return {"k": "list", "of": gen_type(rng, depth - 1, classes, prefix)}
    if r < 0.62:
        return {"k": "dict", "of": gen_type(rng, depth - 1, classes, prefix)}
    if r < 0.78:
        inner = gen_type(rng, depth - 1, classes, prefix)
        if inner["k"] == "opt":
            return inner
        return {"k": "opt", "of": inner, "style": rng.randint(0, 1)}
    return {"k": "dc", "name": gen_class(rng, depth - 1, classes, prefix)}


def gen_class(rng, depth: int, classes: list[dict], prefix: str) -> str:
    name = f"{prefix}C{len(classes)}"
    cls: dict[str, Any] = {"name": name, "fields": [], "meta": rng.choice(["none", "none", "bijective", "keyword", "casefold", "swap"])}
    classes.append(cls)
    nf = rng.randint(1, 4)
    used = set()
    for i in range(nf):
        ft = gen_type(rng, depth, classes, prefix)
        py = f"f{i}_{rng.choice(['val', 'item_count', 'user_id', 'x'])}"
        if py in used:
            py += str(i)
        used.add(py)
        meta = cls["meta"]
        if meta == "none":
            wire = py
        elif meta == "bijective":
            parts = py.split("_")
            wire = parts[0] + "".join(p.title() for p in parts[1:])
        elif meta == "keyword":
            wire = KEYWORDISH[i % len(KEYWORDISH)] if i < 3 else py
        else:  # casefold collisions: userId / userid / USERID
            wire = ["userId", "userid", "USERID", "UserId"][i]
        has_default = ft["k"] in ("opt", "list", "dict") and rng.random() < 0.6
        fld = {"py": py, "wire": wire, "t": ft, "default": has_default}
        if has_default and ft["k"] == "opt" and ft["of"]["k"] == "leaf" and ft["of"]["t"] in LITERAL_DEFAULTS and rng.random() < 0.5:
            fld["dv"] = LITERAL_DEFAULTS[ft["of"]["t"]]     # a nullable field whose declared default is NOT None
        cls["fields"].append(fld)
    if cls["meta"] == "swap":
        # a bijective map in which each wire key is spelled like ANOTHER field's Python name (cyclic shift): renaming
        # must be simultaneous, not one key after the other
        names = [f["py"] for f in cls["fields"]]
        for i, f in enumerate(cls["fields"]):
            f["wire"] = names[(i + 1) % len(names)] if len(names) > 1 else f["py"] + "Wire"
    # dataclass rule: non-default fields first
    cls["fields"].sort(key=lambda f: f["default"])
    return name


def inherit_tree(rng, prefix: str) -> list[dict]:
    """Base and Derived(Base): user code extending a model (or one generated model extending another). `fields` of the derived
    class lists inherited + own fields (that is what an instance / a JSON document of it has), `own_fields` what its body declares."""
    meta = rng.choice(["none", "bijective"])
    wire = (lambda py: py) if meta == "none" else (lambda py: py.split("_")[0] + "".join(w.title() for w in py.split("_")[1:]))
    fb = [{"py": "f0_name", "wire": wire("f0_name"), "t": {"k": "leaf", "t": "str"}, "default": False},
          {"py": "f1_item_count", "wire": wire("f1_item_count"), "t": {"k": "opt", "of": {"k": "leaf", "t": "int"}, "style": 0}, "default": True}]
    fd = [{"py": "g0_user_id", "wire": wire("g0_user_id"), "t": {"k": "opt", "of": {"k": "leaf", "t": "str"}, "style": 1}, "default": True},
          {"py": "g1_tags", "wire": wire("g1_tags"), "t": {"k": "list", "of": {"k": "leaf", "t": rng.choice(["int", "str", "date"])}}, "default": True}]
    base = {"name": f"{prefix}Base", "fields": fb, "meta": meta}
    derived = {"name": f"{prefix}Derived", "fields": fb + fd, "own_fields": fd, "meta": meta, "base": base["name"]}
    return [derived, base]      # (render_module emits in reverse: the base first)


def render_type(t: dict) -> str:
    k = t["k"]
    if k == "leaf":
        return t["t"]
    if k == "list":
        return f"List[{render_type(t['of'])}]"
    if k == "dict":
        return f"Dict[str, {render_type(t['of'])}]"
    if k == "opt":
        inner = render_type(t["of"])
        return f"Optional[{inner}]" if t.get("style", 0) == 0 else f"{inner} | None"
    return t["name"]


def render_module(classes: list[dict], annotations: str = "eager") -> str:
    """annotations: 'eager' (evaluated at class creation), 'postponed' (PEP 563: every annotation is source text) or 'quoted'
    (fields with defaults spell their annotation as a string literal)."""
    out = (["from __future__ import annotations"] if annotations == "postponed" else []) + ["from dataclasses import dataclass, field", "from datetime import date, datetime, time",
           "from enum import Enum", "from typing import Any, Dict, List, Optional", "from uuid import UUID", ""]
    # enum leaves are declared the way generated clients declare them: a str / int mixin
    for en, (base, members) in ENUMS.items():
        out += [f"class {en}({base}, Enum):"] + [f"    {m} = {v!r}" for m, v in members] + ["", ""]
    # nested classes are created after their parents in `classes`; emit in reverse so references resolve at import
    for c in reversed(classes):
        out += ["@dataclass", f"class {c['name']}({c['base']}):" if c.get("base") else f"class {c['name']}:"]
        for f in (c.get("own_fields") or c["fields"]):
            ty = render_type(f["t"])
            if not f["default"]:
                out.append(f"    {f['py']}: {ty}")
            elif f["t"]["k"] == "opt":
                q = '"' if annotations == "quoted" else ""
                out.append(f"    {f['py']}: {q}{ty}{q} = {f.get('dv', 'None')}")
            elif f["t"]["k"] == "list":
                out.append(f"    {f['py']}: {ty} = field(default_factory=list)")
            else:
                out.append(f"    {f['py']}: {ty} = field(default_factory=dict)")
        if c["meta"] != "none":
            out += ["", "    class Meta:", "        key_transform_with_load = {"]
            out += [f"            {f['wire']!r}: {f['py']!r}," for f in c["fields"]]
            out += ["        }", "        key_transform_with_dump = {"]
            out += [f"            {f['py']!r}: {f['wire']!r}," for f in c["fields"]]
            out += ["        }"]
        out += ["", ""]
    return "\n".join(out)


# ------------------------------------------------------------------ independent value / JSON construction
def gen_value(rng, t: dict, cmap: dict[str, dict], depth: int = 0) -> tuple[Any, Any, bool]:
    """Return (python-side descriptor, JSON document, nontrivial). Python side is a descriptor re-built in the child."""
    k = t["k"]
    if k == "leaf":
        ty = t["t"]
        if ty == "str":
            v = rng.choice(["", "a", "héllo", "x y", "日本", "null", "0"])
            return {"v": v}, v, False
        if ty == "int":
            v = rng.choice([0, 1, -5, 2 ** 40])
            return {"v": v}, v, False
        if ty == "float":
            v = rng.choice([0.5, -1.25, 3.0, 1e10])
            return {"v": v}, v, False
        if ty == "bool":
            v = rng.random() < 0.5
            return {"v": v}, v, False
        if ty == "bytes":
            # include values whose base64 text uses every part of the alphabet ('+', '/', '=' padding of both lengths)
            raw = rng.choice([b"", b"abc", b"\x00\xff\x10", b"hello world", b"\xfb\xff", b"\xff\xff\xff", b"<<???>>",
                              rng.randbytes(rng.randint(1, 24))])
            return {"bytes": raw.hex()}, base64.b64encode(raw).decode(), True
        if ty == "datetime":
            v = dt.datetime(2020 + rng.randint(0, 5), rng.randint(1, 12), rng.randint(1, 28), rng.randint(0, 23),
                            rng.randint(0, 59), rng.randint(0, 59),
                            tzinfo=rng.choice([None, dt.timezone.utc, dt.timezone(dt.timedelta(hours=2))]))
            return {"datetime": v.isoformat()}, v.isoformat(), True
        if ty == "time":
            v = dt.time(rng.randint(0, 23), rng.randint(0, 59), rng.randint(0, 59))
            return {"time": v.isoformat()}, v.isoformat(), True
        if ty in ENUMS:
            v = rng.choice(ENUMS[ty][1])[1]
            return {"enum": [ty, v]}, v, True
        if ty == "UUID":
            import uuid as _uuid
            v = _uuid.UUID(int=rng.getrandbits(128))
            return {"uuid": str(v)}, str(v), True
        v = dt.date(2020 + rng.randint(0, 5), rng.randint(1, 12), rng.randint(1, 28))
        return {"date": v.isoformat()}, v.isoformat(), True
    if k == "list":
        n = rng.randint(0, 3) if depth < 3 else rng.randint(0, 1)
        items = [gen_value(rng, t["of"], cmap, depth + 1) for _ in range(n)]
        return {"list": [i[0] for i in items]}, [i[1] for i in items], True
    if k == "dict":
        n = rng.randint(0, 2)
        items = {f"k{j}": gen_value(rng, t["of"], cmap, depth + 1) for j in range(n)}
        return {"dict": {kk: i[0] for kk, i in items.items()}}, {kk: i[1] for kk, i in items.items()}, True
    if k == "opt":
        if rng.random() < 0.3:
            return {"v": None}, None, False
        return gen_value(rng, t["of"], cmap, depth)
    c = cmap[t["name"]]
    py, js = {}, {}
    renamed = False
    for f in c["fields"]:
        p, j, _ = gen_value(rng, f["t"], cmap, depth + 1)
        py[f["py"]] = p
        js[f["wire"]] = j
        renamed = renamed or f["wire"] != f["py"]
    return {"dc": t["name"], "fields": py}, js, True


# ------------------------------------------------------------------ child process: runs the real converter
def build(desc: Any, mod) -> Any:
    if "v" in desc:
        return desc["v"]
    if "bytes" in desc:
        return bytes.fromhex(desc["bytes"])
    if "datetime" in desc:
        return dt.datetime.fromisoformat(desc["datetime"])
    if "date" in desc:
        return dt.date.fromisoformat(desc["date"])
    if "time" in desc:
        return dt.time.fromisoformat(desc["time"])
    if "uuid" in desc:
        import uuid as _uuid
        return _uuid.UUID(desc["uuid"])
    if "enum" in desc:
        return getattr(mod, desc["enum"][0])(desc["enum"][1])
    if "list" in desc:
        return [build(x, mod) for x in desc["list"]]
    if "dict" in desc:
        return {k: build(v, mod) for k, v in desc["dict"].items()}
    cls = getattr(mod, desc["dc"])
    return cls(**{k: build(v, mod) for k, v in desc["fields"].items()})


def jnorm(x: Any) -> Any:
    """JSON equality with the tolerances the property states (1 == 1.0, bool != number)."""
    if isinstance(x, bool) or x is None or isinstance(x, str):
        return x
    if isinstance(x, (int, float)):
        return ("num", float(x))
    if isinstance(x, list):
        return [jnorm(i) for i in x]
    if isinstance(x, dict):
        return {k: jnorm(v) for k, v in x.items()}
    return ("non-json", repr(x))


def child_main(spec_path: str, out_path: str) -> None:
    spec = json.loads(Path(spec_path).read_text())
    sys.path.insert(0, spec["moddir"])
    common.use_repo()
    common.use_deps()
    import icontract
    from pyopenapi_gen.core import cattrs_converter as cc
    from pyopenapi_gen.core import utils as U

    evals = {"n": 0, "bad": []}

    class SerializerPostBroken(Exception):
        pass

    def serialisable_without_null_keys(obj, result):  # in-vivo: record, never raise
        evals["n"] += 1
        try:
            json.dumps(result)
        except Exception as e:
            evals["bad"].append(f"not json-serialisable: {type(e).__name__}")
            return True

        def walk(v):
            if isinstance(v, dict):
                for k, x in v.items():
                    if x is None:
                        evals["bad"].append(f"None-valued key {k!r}")
                    walk(x)
            elif isinstance(v, list):
                for x in v:
                    walk(x)

        walk(result)
        return True

    U.DataclassSerializer.serialize = staticmethod(
        icontract.ensure(serialisable_without_null_keys, error=SerializerPostBroken)(U.DataclassSerializer.serialize))

    results = {}
    mods = {}
    for idx in spec["order"]:
        case = spec["cases"][idx]
        mod = mods.get(case["module"]) or importlib.import_module(case["module"])
        mods[case["module"]] = mod
        cls = getattr(mod, case["cls"])
        res: dict[str, Any] = {}
        # law A: decode(d) == x
        try:
            x = build(case["py"], mod)
            got = cc.structure_from_dict(case["json"], cls)
            res["decode_equal"] = got == x
            if got != x:
                res["decode_detail"] = f"got {got!r} expected {x!r}"[:600]
            # law A': encode(decode(d)) == d
            back = cc.unstructure_to_dict(got)
            res["redecode_equal"] = jnorm(back) == jnorm(case["json"])
            if not res["redecode_equal"]:
                res["redecode_detail"] = f"got {json.dumps(back, default=repr)[:300]} expected {json.dumps(case['json'])[:300]}"
        except Exception as e:
            res["decode_exc"] = f"{type(e).__name__}: {str(e)[:300]}"
        # law B: encode(x) == d
        try:
            x = build(case["py"], mod)
            enc = cc.unstructure_to_dict(x)
            res["encode_equal"] = jnorm(enc) == jnorm(case["json"])
            if not res["encode_equal"]:
                res["encode_detail"] = f"got {json.dumps(enc, default=repr)[:300]} expected {json.dumps(case['json'])[:300]}"
            ser = U.DataclassSerializer.serialize(x)
            res["serialize_ok"] = True
        except Exception as e:
            res["encode_exc"] = f"{type(e).__name__}: {str(e)[:300]}"
        # partial document: keys of fields with defaults omitted -> decodes to the defaults, re-encodes tolerantly
        part = case.get("partial")
        if part is not None:
            try:
                from vmon import refmodel
                got = cc.structure_from_dict(part["json"], cls)
                want = build(part["py"], mod)
                res["partial_decode_equal"] = got == want
                back = cc.unstructure_to_dict(got)
                d = refmodel.jdiff(part["json"], json.loads(json.dumps(back, default=repr)))
                res["partial_reencode_ok"] = d is None
                if d:
                    res["partial_detail"] = d[:200]
            except Exception as e:
                res["partial_exc"] = f"{type(e).__name__}: {str(e)[:200]}"
        # failure injection
        inj = case.get("inject")
        if inj:
            try:
                cc.structure_from_dict(inj["json"], cls)
                res["inject"] = "no_error"
            except ValueError as e:
                msg = str(e)
                res["inject"] = "named" if any(n in msg for n in inj["names"]) else "unnamed"
                res["inject_msg"] = msg[:300]
            except Exception as e:
                res["inject"] = f"wrong_type:{type(e).__name__}"
                res["inject_msg"] = str(e)[:300]
        results[str(idx)] = res
    Path(out_path).write_text(json.dumps({"results": results, "contract_evals": evals["n"], "contract_bad": evals["bad"][:20]}))


# ------------------------------------------------------------------ failure injection
def inject(rng, t: dict, js: Any, cmap: dict, path_names: list[str]) -> tuple[Any, list[str]] | None:
    """Return (json with one un-coercible value inside a dataclass field, acceptable names) or None."""
    if t["k"] != "dc" or not isinstance(js, dict):
        return None
    c = cmap[t["name"]]
    cands = []
    for f in c["fields"]:
        ft = f["t"]
        inner = ft["of"] if ft["k"] == "opt" else ft
        v = js.get(f["wire"])
        if v is None:
            continue
        if inner["k"] == "leaf" and inner["t"] in ("int", "float"):
            cands.append((f, "abc"))
        elif inner["k"] == "leaf" and inner["t"] in ("datetime", "date"):
            cands.append((f, "not-a-date"))
        elif inner["k"] == "leaf" and inner["t"] in ENUMS:
            cands.append((f, "no-such-member" if ENUMS[inner["t"]][0] == "str" else 12345))
        elif inner["k"] == "list":
            cands.append((f, 5))
        elif inner["k"] == "dc":
            sub = inject(rng, inner, v, cmap, path_names + [f["py"]])
            if sub:
                if ft["k"] == "opt":
                    # Optional[Model] is decoded as a union (try each variant): the converter reports the field that holds
                    # the union - it is the offending field as far as the enclosing model can tell - and lists the variants
                    # tried.  Attribution legitimately stops at that boundary, so that field's names are accepted as well.
                    sub = (sub[0], list(sub[1]) + [f["py"], f["wire"]])
                cands.append((f, sub))
            cands.append((f, 7))
    if not cands:
        return None
    f, bad = rng.choice(cands)
    out = dict(js)
    if isinstance(bad, tuple):
        out[f["wire"]] = bad[0]
        return out, bad[1]
    out[f["wire"]] = bad
    return out, [f["py"], f["wire"]]


# ------------------------------------------------------------------ cyclic instance graphs for the serialiser
CYCLIC_SRC = '''
from dataclasses import dataclass, field
from typing import Any, Dict, List, Optional

@dataclass
class Node:
    name: str
    nxt: Optional["Node"] = None
    kids: List["Node"] = field(default_factory=list)
    extra: Dict[str, Any] = field(default_factory=dict)
    anything: Any = None

    class Meta:
        key_transform_with_load = {"name": "name", "next": "nxt", "kids": "kids", "extra": "extra", "anything": "anything"}
        key_transform_with_dump = {"name": "name", "nxt": "next", "kids": "kids", "extra": "extra", "anything": "anything"}
'''


# the same class with every annotation spelled as ONE string that resolves at module level - which is how generated models
# spell self references (parent: "TreeNode | None", kids: "List[TreeNode] | None")
CYCLIC_SRC_GENERATED_STYLE = '''
from dataclasses import dataclass, field
from typing import Any, Dict, List, Optional

@dataclass
class Node:
    name: str
    nxt: "Node | None" = None
    kids: "List[Node] | None" = field(default_factory=list)
    extra: "Dict[str, Any]" = field(default_factory=dict)
    anything: Any = None

    class Meta:
        key_transform_with_load = {"name": "name", "next": "nxt", "kids": "kids", "extra": "extra", "anything": "anything"}
        key_transform_with_dump = {"name": "name", "nxt": "next", "kids": "kids", "extra": "extra", "anything": "anything"}
'''


def run_cyclic(ctx: Ctx) -> None:
    _run_cyclic(ctx, "vmon_cyc_mod", CYCLIC_SRC, [])
    _run_cyclic(ctx, "vmon_cyc_mod_gen", CYCLIC_SRC_GENERATED_STYLE, ["cycle_with_annotations_spelled_as_generated_models"])


def _run_cyclic(ctx: Ctx, modname: str, source: str, extra_feats: list[str]) -> None:
    """In-process: serializer on cyclic graphs under a step/time guard (RecursionError = does not terminate properly)."""
    rec = ctx.rec
    d = ctx.scratch.new("cyc")
    (d / f"{modname}.py").write_text(source)
    sys.path.insert(0, str(d))
    mod = importlib.import_module(modname)
    from pyopenapi_gen.core import utils as U

    N = mod.Node
    shapes = []

    def two_cycle():
        a, b = N("a"), N("b")
        a.nxt, b.nxt = b, a
        return a

    def self_opt():
        a = N("a")
        a.nxt = a
        return a

    def self_list():
        a = N("a")
        a.kids.append(a)
        return a

    def list_2cycle():
        a, b = N("a"), N("b")
        a.kids.append(b)
        b.kids.append(a)
        return a

    def three_cycle():
        a, b, c = N("a"), N("b"), N("c")
        a.nxt, b.nxt, c.nxt = b, c, a
        return a

    def self_dict():
        a = N("a")
        a.extra["me"] = a
        return a

    def dict_2cycle():
        a, b = N("a"), N("b")
        a.extra["b"] = b
        b.extra["a"] = a
        return a

    def self_any():
        a = N("a")
        a.anything = a
        return a

    def plain_list_self():
        l: list = [1]
        l.append(l)
        return l

    def plain_dict_self():
        dd: dict = {"a": 1}
        dd["self"] = dd
        return dd

    def shared_not_cyclic():
        s = N("shared")
        a = N("a", nxt=s, kids=[s, s])
        return a

    shapes = [("two_cycle_optional", two_cycle, []), ("self_optional", self_opt, []), ("self_list", self_list, []),
              ("list_two_cycle", list_2cycle, []), ("three_cycle", three_cycle, []),
              ("self_dict", self_dict, ["cycle_through_dict_or_any"]), ("dict_two_cycle", dict_2cycle, ["cycle_through_dict_or_any"]),
              ("self_any", self_any, ["cycle_through_dict_or_any"]),
              ("plain_list_self", plain_list_self, []), ("plain_dict_self", plain_dict_self, ["cycle_through_dict_or_any"]),
              ("shared_not_cyclic", shared_not_cyclic, [])]
    for name, mk, feats in shapes:
        feats = feats + extra_feats
        if extra_feats:
            name = f"{name}/generated_style_annotations"
        rec.count("cyclic_graphs")
        rec.case({"cyclic": name})
        obj = mk()
        try:
            out = U.DataclassSerializer.serialize(obj)
        except RecursionError:
            rec.violation("serializer:RecursionError", feats + ["cyclic_instance"], {"cyclic": name},
                          "DataclassSerializer.serialize exhausted the stack on a cyclic instance graph")
            continue
        except Exception as e:
            rec.violation(f"serializer:raise:{type(e).__name__}", feats + ["cyclic_instance"], {"cyclic": name}, str(e)[:200])
            continue
        try:
            json.dumps(out)
        except Exception as e:
            rec.violation("serializer:not_json", feats + ["cyclic_instance"], {"cyclic": name}, repr(e)[:200])
        def null_keys(x, path="$"):
            if isinstance(x, dict):
                for kk, vv in x.items():
                    if vv is None:
                        yield f"{path}.{kk}"
                    yield from null_keys(vv, f"{path}.{kk}")
            elif isinstance(x, list):
                for ii, vv in enumerate(x):
                    yield from null_keys(vv, f"{path}[{ii}]")
        nk = list(null_keys(out))
        rec.count("cyclic_outputs_scanned_for_null_keys")
        if nk:
            rec.violation("serializer:null_valued_key", feats + ["cyclic_instance"], {"cyclic": name}, f"{nk[:4]} in {json.dumps(out)[:200]}")
        if name == "shared_not_cyclic" and (out.get("next") != {"name": "shared", "kids": [], "extra": {}} or
                                            out.get("kids") != [out.get("next")] * 2):
            rec.violation("serializer:shared_reference_dropped", feats, {"cyclic": name}, json.dumps(out)[:300])
        rec.seen("cyclic_outcomes", f"{name}: {json.dumps(out)[:80]}")


# ------------------------------------------------------------------ shard
def run_shard(ctx: Ctx) -> None:
    common.use_repo()
    rec, rng = ctx.rec, ctx.rng
    nbatches = 2 if ctx.quick else 30
    trees_per_batch = 14 if ctx.quick else 22
    for b in range(nbatches):
        moddir = ctx.scratch.new("mods")
        cases = []
        for ti in range(trees_per_batch):
            classes: list[dict] = []
            prefix = f"S{ctx.shard}B{b}T{ti}"
            inherit = ti % 7 == 3
            if inherit:
                classes = inherit_tree(rng, prefix)
                rec.count("trees_with_dataclass_inheritance")
            root = classes[0]["name"] if inherit else gen_class(rng, rng.randint(1, 4), classes, prefix)
            modname = f"vmon_types_{prefix.lower()}"
            ann = rng.choice(["eager", "eager", "postponed", "quoted"])
            rec.count(f"modules_with_{ann}_annotations")
            (moddir / f"{modname}.py").write_text(render_module(classes, ann))
            if any("dv" in f for c in classes for f in c["fields"]):
                rec.count("trees_with_nullable_field_defaulting_to_a_value")
            cmap = {c["name"]: c for c in classes}
            if any(c["meta"] != "none" for c in classes):
                rec.count("trees_with_meta")
            rec.seen("meta_kinds", ",".join(sorted({c["meta"] for c in classes})))
            for inst in range(6 if ctx.quick else 12):
                iroot = root
                if inherit and inst % 2 == 0:
                    iroot = classes[1]["name"]      # base and derived instances alternate: both get converted in one process
                py, js, nontriv = gen_value(rng, {"k": "dc", "name": iroot}, cmap)
                case = {"module": modname, "cls": iroot, "py": py, "json": js, "tree": prefix, "nontrivial": nontriv}
                rootc = cmap[iroot]
                dflt = [f for f in rootc["fields"] if f["default"] and "dv" not in f]     # (omit only keys whose default is None / [] / {})
                if dflt and rng.random() < 0.5:
                    drop = [f for f in dflt if rng.random() < 0.7] or dflt[:1]
                    pj = {k: v for k, v in js.items() if k not in {f["wire"] for f in drop}}
                    ppy = {"dc": iroot, "fields": {k: v for k, v in py["fields"].items() if k not in {f["py"] for f in drop}}}
                    case["partial"] = {"json": pj, "py": ppy}
                if rng.random() < 0.4:
                    inj = inject(rng, {"k": "dc", "name": iroot}, js, cmap, [])
                    if inj:
                        case["inject"] = {"json": inj[0], "names": inj[1]}
                cases.append(case)
        orders = [list(range(len(cases)))]
        o2 = list(range(len(cases)))
        rng.shuffle(o2)
        orders.append(o2)
        orders.append(list(reversed(range(len(cases)))))
        outs = []
        for oi, order in enumerate(orders):
            spec = {"moddir": str(moddir), "cases": cases, "order": order}
            sp = moddir / f"spec{oi}.json"
            op = moddir / f"out{oi}.json"
            sp.write_text(json.dumps(spec))
            env = dict(os.environ)
            env["PYTHONPATH"] = str(common.VERIF_ROOT)
            try:
                r = subprocess.run([common.PY, "-m", "vmon.props.c16", "--child", str(sp), str(op)], env=env,
                                   capture_output=True, text=True, timeout=600, cwd=str(common.VERIF_ROOT))
            except subprocess.TimeoutExpired:
                rec.inconclusive.append("converter child hit the watchdog")
                continue
            if r.returncode != 0 or not op.exists():
                rec.violation("child_crash", ["type_tree"], {"batch": b, "order": oi}, r.stderr[-800:])
                continue
            outs.append(json.loads(op.read_text()))
        if not outs:
            continue
        base = outs[0]
        rec.count("serializer_contract_evals", base["contract_evals"])
        for bad in base["contract_bad"]:
            rec.violation("serializer:contract:" + bad.split(":")[0].split(" ")[0], ["type_tree"], {"batch": b}, bad)
        for idx, case in enumerate(cases):
            res = base["results"][str(idx)]
            desc = {"tree": case["tree"], "json": case["json"]}
            feats = ["type_tree"]
            rec.case(desc, nontrivial=case["nontrivial"], n=2)
            rec.count("law_decode_checks")
            rec.count("law_encode_checks")
            full = {"module_source": (moddir / f"{case['module']}.py").read_text(), "cls": case["cls"], "json": case["json"],
                    "py": case["py"], "inject": case.get("inject")}
            if "decode_exc" in res:
                rec.violation("law:decode_raises", feats, full, res["decode_exc"])
            else:
                if not res["decode_equal"]:
                    rec.violation("law:decode_not_equal", feats, full, res.get("decode_detail", ""))
                if not res["redecode_equal"]:
                    rec.violation("law:encode_of_decode_differs", feats, full, res.get("redecode_detail", ""))
            if "encode_exc" in res:
                rec.violation("law:encode_raises", feats, full, res["encode_exc"])
            elif not res["encode_equal"]:
                rec.violation("law:encode_not_equal", feats, full, res.get("encode_detail", ""))
            if "partial_exc" in res:
                rec.violation("law:partial_decode_raises", feats, full, res["partial_exc"])
            elif "partial_decode_equal" in res:
                rec.count("partial_documents")
                if not res["partial_decode_equal"]:
                    rec.violation("law:partial_decode_not_defaults", feats, full, "absent keys did not decode to the declared defaults")
                if not res["partial_reencode_ok"]:
                    rec.violation("law:partial_reencode_differs", feats, full, res.get("partial_detail", ""))
            if "inject" in res:
                rec.count("failure_injections")
                rec.seen("inject_outcomes", res["inject"])
                if res["inject"] != "named":
                    rec.violation(f"failure:{res['inject']}", feats, full, res.get("inject_msg", ""))
            # history effect: other first-use orders must agree
            for other in outs[1:]:
                rec.count("order_comparisons")
                o = other["results"][str(idx)]
                keys = ("decode_equal", "redecode_equal", "encode_equal", "inject")
                if any(o.get(k) != res.get(k) for k in keys) or ("decode_exc" in o) != ("decode_exc" in res):
                    rec.violation("history:order_dependent_outcome", feats, full,
                                  f"order0 {json.dumps(res)[:300]} vs other {json.dumps(o)[:300]}")
            if len(rec.samples) < 2 and case["nontrivial"]:
                rec.sample({"module_source": full["module_source"][:1500], "json": case["json"], "outcome": res})
    if ctx.shard == 0:
        run_cyclic(ctx)


def replay(ctx: Ctx, file: dict) -> None:
    common.use_repo()
    c = file["case"]
    if "cyclic" in c:
        run_cyclic(ctx)
        ctx.rec.violations = [v for v in ctx.rec.violations if v["case"].get("cyclic") == c["cyclic"]]
        return
    moddir = ctx.scratch.new("mods")
    (moddir / "vmon_replay_mod.py").write_text(c["module_source"])
    case = {"module": "vmon_replay_mod", "cls": c["cls"], "py": c["py"], "json": c["json"]}
    if c.get("inject"):
        case["inject"] = c["inject"]
    sp, op = moddir / "spec.json", moddir / "out.json"
    sp.write_text(json.dumps({"moddir": str(moddir), "cases": [case], "order": [0]}))
    env = dict(os.environ)
    env["PYTHONPATH"] = str(common.VERIF_ROOT)
    subprocess.run([common.PY, "-m", "vmon.props.c16", "--child", str(sp), str(op)], env=env, timeout=600,
                   cwd=str(common.VERIF_ROOT))
    res = json.loads(op.read_text())["results"]["0"]
    ctx.rec.case(c)
    bad = ("decode_exc" in res or "encode_exc" in res or not res.get("decode_equal", True) or not res.get("encode_equal", True)
           or not res.get("redecode_equal", True) or res.get("inject", "named") != "named")
    if bad:
        ctx.rec.violation(file["sig"], file.get("features", []), c, json.dumps(res)[:500])


if __name__ == "__main__":
    if len(sys.argv) == 4 and sys.argv[1] == "--child":
        child_main(sys.argv[2], sys.argv[3])
