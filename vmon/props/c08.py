"""C08 — parsing cyclic and deep schema graphs terminates with balanced state.

Monitors installed from the harness on the real parser (no source hooks):
 * shadow tracker wrapped around unified_enter_schema / unified_exit_schema (own depth + stack; compared with the
   tracker's fields after every event; CONTINUE decisions checked against the configured limit; step budget);
 * rest-state assertion wrapped around extractor._parse_schema, i.e. after each top-level schema;
 * final-state assertion wrapped around loader.build_schemas (terminal states, every declared name present);
 * sys.monitoring RAISE filtered on RecursionError; LINE events on the `return` statements of _parse_schema
   (which early-return branches the workload reached); interpreter frame depth at new depth peaks.
Each PYOPENAPI_MAX_DEPTH setting gets its own worker processes (the variable is read at import time).
"""
from __future__ import annotations

import ast
import inspect
import itertools
import logging
import os
import sys
import textwrap
from typing import Any

from .. import common, graphgen
from ..common import Ctx

LEVEL = "exploration"
SETTINGS = [1, 2, 5, 10, 150]
SHARDS = {"quick": 15, "thorough": 15}
FLOOR = {"quick": 5000, "thorough": 100000}
REQUIRED_COUNTERS = ["enter_events", "exit_events", "rest_state_checks", "final_state_checks",
                     "action_continue", "action_create", "action_existing", "action_placeholder", "depth_placeholders"]
MIN_RETURN_SITES = 6
RULE = ("all directed multigraphs on 2 named schemas (8 edge kinds per ordered pair incl. self-pairs) x declaration orders x "
        "naming schemes, OpenAPI-3.1 list-typed variants, chains/nestings 2x deeper than the limit with later re-references, "
        "(thorough: N=3 with <=3 edges exhaustively, random N<=6, bundled corpus) under PYOPENAPI_MAX_DEPTH in {1,2,5,10,150}; "
        "case = (graph, order, scheme, setting); non-trivial = graph has a cycle or exceeds the depth limit")
ASSUMPTIONS = ["OpenAPI validator stubbed out for speed (its result only produces warnings, it cannot influence the IR); "
               "one shard per setting runs a sample with the validator enabled",
               "limits above the default 150 are not explored (cannot be honoured inside CPython's recursion limit)"]


class StepBudget(BaseException):
    pass


class Mon:
    def __init__(self, rec, limit: int) -> None:
        self.rec, self.limit = rec, limit
        self.reset()
        self.return_lines_seen: set[int] = set()
        self.recursion_errors = 0

    def reset(self) -> None:
        self.shadow = 0
        self.stack: list[str] = []
        self.events = 0
        self.peak = 0
        self.problems: list[tuple[str, str]] = []
        self.final_ctx = None
        self.budget = 400000

    def problem(self, sig: str, detail: str) -> None:
        if len(self.problems) < 20 and not any(s == sig for s, _ in self.problems):
            self.problems.append((sig, detail))


def install(mon: Mon):
    import pyopenapi_gen.core.parsing.unified_cycle_detection as ucd
    import pyopenapi_gen.core.loader.schemas.extractor as ext
    import pyopenapi_gen.core.loader.loader as ldr
    import pyopenapi_gen.core.parsing.schema_parser as sp

    o_enter, o_exit = ucd.unified_enter_schema, ucd.unified_exit_schema
    rec = mon.rec
    CA = ucd.CycleAction
    SS = ucd.SchemaState

    def enter(schema_name, context):
        mon.events += 1
        if mon.events > mon.budget:
            raise StepBudget()
        mon.shadow += 1
        r = o_enter(schema_name, context)
        rec.count("enter_events")
        if context.recursion_depth != mon.shadow:
            mon.problem("tracker:depth_disagrees_with_shadow",
                        f"after enter({schema_name!r}): tracker {context.recursion_depth} shadow {mon.shadow}")
        a = r.action
        if a == CA.CONTINUE_PARSING:
            rec.count("action_continue")
            if schema_name:
                if mon.shadow > mon.limit + 0 and context.recursion_depth > mon.limit:
                    mon.problem("limit:continue_beyond_limit",
                                f"CONTINUE for {schema_name!r} at depth {context.recursion_depth} > limit {mon.limit}")
                mon.stack.append(schema_name)
            if mon.shadow > mon.peak:
                mon.peak = mon.shadow
                f, n = sys._getframe(), 0
                while f is not None:
                    n += 1
                    f = f.f_back
                rec.counters["max_interp_frames"] = max(rec.counters.get("max_interp_frames", 0), n)
        elif a == CA.CREATE_PLACEHOLDER:
            rec.count("action_create")
            if r.cycle_type == ucd.CycleType.MAX_DEPTH:
                rec.count("depth_placeholders")
            else:
                rec.count("cycle_placeholders")
        elif a == CA.RETURN_EXISTING:
            rec.count("action_existing")
        elif a == CA.RETURN_PLACEHOLDER:
            rec.count("action_placeholder")
        return r

    def exit_(schema_name, context):
        o_exit(schema_name, context)
        rec.count("exit_events")
        mon.shadow -= 1
        if mon.shadow < 0:
            rec.count("clamped_exits_diagnostic")
            mon.shadow = 0
        if schema_name and schema_name in mon.stack:
            for i in range(len(mon.stack) - 1, -1, -1):
                if mon.stack[i] == schema_name:
                    del mon.stack[i]
                    break
        if context.recursion_depth != mon.shadow:
            mon.problem("tracker:depth_disagrees_with_shadow",
                        f"after exit({schema_name!r}): tracker {context.recursion_depth} shadow {mon.shadow}")

    ucd.unified_enter_schema = enter
    ucd.unified_exit_schema = exit_

    o_parse = ext._parse_schema

    def top_parse(name, node, context, *a, **kw):
        try:
            return o_parse(name, node, context, *a, **kw)
        finally:
            u = context.unified_cycle_context
            rec.count("rest_state_checks")
            if u.recursion_depth != 0 or mon.shadow != 0:
                mon.problem("rest:depth_nonzero", f"after top-level {name!r}: tracker depth {u.recursion_depth}, shadow {mon.shadow}")
                mon.shadow = u.recursion_depth  # resynchronise so one leak is reported once
            if u.schema_stack or mon.stack:
                mon.problem("rest:stack_nonempty", f"after top-level {name!r}: stack {u.schema_stack} shadow {mon.stack}")
                mon.stack = list(u.schema_stack)
            inprog = [k for k, v in u.schema_states.items() if v == SS.IN_PROGRESS]
            if inprog:
                mon.problem("rest:in_progress_left", f"after top-level {name!r}: {inprog}")

    ext._parse_schema = top_parse

    o_build = ldr.build_schemas

    def build(raw_schemas, raw_components):
        ctx = o_build(raw_schemas, raw_components)
        mon.final_ctx = ctx
        u = ctx.unified_cycle_context
        rec.count("final_state_checks")
        from pyopenapi_gen.core.utils import NameSanitizer

        terminal = {SS.COMPLETED, SS.PLACEHOLDER_CYCLE, SS.PLACEHOLDER_DEPTH, SS.PLACEHOLDER_SELF_REF}
        for n in raw_schemas:
            if n not in ctx.parsed_schemas and NameSanitizer.sanitize_class_name(n) not in ctx.parsed_schemas:
                mon.problem("final:declared_name_missing", n)
            st = u.schema_states.get(n)
            if st is not None and st not in terminal:
                mon.problem(f"final:non_terminal_state:{st.name}", f"{n}: {st}")
            if st is None:
                rec.count("declared_without_state_diagnostic")
        return ctx

    ldr.build_schemas = build
    ldr.validate_spec = None  # validator stubbed (see ASSUMPTIONS); re-enabled for the sample

    # sys.monitoring observers
    mt = sys.monitoring
    TOOL = 4
    try:
        mt.use_tool_id(TOOL, "vmon-c08")
    except ValueError:
        pass
    src = textwrap.dedent(inspect.getsource(sp._parse_schema))
    first = sp._parse_schema.__code__.co_firstlineno
    ret_lines = {first + n.lineno - 1 for n in ast.walk(ast.parse(src)) if isinstance(n, ast.Return)}
    mon.all_return_lines = ret_lines

    def on_line(code, line):
        if line in ret_lines:
            mon.return_lines_seen.add(line)
            return None
        return mt.DISABLE

    def on_raise(code, off, exc):
        # RAISE fires in every frame an exception passes through; the origin is the frame with a one-entry traceback
        if isinstance(exc, RecursionError):
            tb = exc.__traceback__
            if (tb is None or tb.tb_next is None) and "pyopenapi_gen" in code.co_filename:
                mon.recursion_errors += 1

    mt.register_callback(TOOL, mt.events.LINE, on_line)
    mt.set_local_events(TOOL, sp._parse_schema.__code__, mt.events.LINE)
    mt.register_callback(TOOL, mt.events.RAISE, on_raise)
    mt.set_events(TOOL, mt.events.RAISE)
    return ldr


def chain_doc(kind: str, length: int, rerefs: int) -> dict:
    s: dict[str, Any] = {}
    ref = lambda n: {"$ref": f"#/components/schemas/{n}"}  # noqa
    for i in range(length):
        nxt = ref(f"C{i + 1}")
        base = {"type": "object", "properties": {"id": {"type": "integer"}}}
        if kind == "ref":
            base["properties"]["nxt"] = nxt
        elif kind == "array_ref":
            base["properties"]["nxt"] = {"type": "array", "items": nxt}
        elif kind == "inline_obj":
            base["properties"]["nxt"] = {"type": "object", "properties": {"x": nxt}}
        elif kind == "array_inline":
            base["properties"]["nxt"] = {"type": "array", "items": {"type": "object", "properties": {"x": nxt}}}
        elif kind == "addl_props":
            base["properties"]["nxt"] = {"type": "object", "additionalProperties": nxt}
        elif kind == "one_of":
            base["properties"]["nxt"] = {"oneOf": [nxt, {"type": "string"}]}
        elif kind == "all_of":
            base = {"allOf": [nxt, base]}
        s[f"C{i}"] = base
    s[f"C{length}"] = {"type": "object", "properties": {"id": {"type": "integer"}}}
    # later schemas that re-reference members all along the chain (drives the RETURN_PLACEHOLDER path)
    for r in range(rerefs):
        props = {"id": {"type": "integer"}}
        for k in range(0, length + 1, max(1, length // 12)):
            props[f"r{k}"] = ref(f"C{k}")
        s[f"Late{r}"] = {"type": "object", "properties": props}
    s["Leaf"] = {"type": "object", "properties": {"leafValue": {"type": "string"}}}
    return {"openapi": "3.0.3", "info": {"title": "D", "version": "1"}, "paths": {}, "components": {"schemas": s}}


def nest_doc(depth: int, via_array: bool) -> dict:
    node: dict[str, Any] = {"type": "object", "properties": {"leaf": {"type": "string"}}}
    for i in range(depth):
        inner = {"type": "array", "items": node} if via_array and i % 2 else node
        node = {"type": "object", "properties": {"c": inner, "n": {"type": "integer"}}}
    s = {"Root": node, "After": {"type": "object", "properties": {"r": {"$ref": "#/components/schemas/Root"}}}}
    return {"openapi": "3.0.3", "info": {"title": "N", "version": "1"}, "paths": {}, "components": {"schemas": s}}


FAULTY_NODES = {
    "required_true_on_property": {"type": "object", "properties": {"name": {"type": "string", "required": True}, "n": {"type": "integer"}}},
    "properties_is_a_list": {"type": "object", "properties": [{"name": "x"}]},
    "items_is_a_string": {"type": "array", "items": "string"},
    "allOf_member_is_a_string": {"allOf": ["Base", {"type": "object", "properties": {"q": {"type": "string"}}}]},
    "enum_is_a_mapping": {"type": "string", "enum": {"a": 1}},
    "type_is_a_mapping": {"type": {"oneOf": ["string"]}, "properties": {"p": {"type": "string"}}},
}


def ops_doc(faulty: str, position: str, where: int, nops: int) -> dict:
    """Operations whose request / response / parameter schemas are written INLINE (each one a top-level parse of its own,
    under a name derived from the operation). One of them carries a malformed node that makes parsing raise; the loader
    skips that operation and keeps using the same parsing context for the operations that follow."""
    good = lambda i: {"type": "object", "properties": {"options": {"type": "object", "properties": {"layout": {"type": "object", "properties": {  # noqa
        "cols": {"type": "integer"}}}, "tag": {"type": "string"}}}, "id": {"type": "integer"}, "peer": {"$ref": "#/components/schemas/Base"}}}
    paths = {}
    for i in range(nops):
        bad = FAULTY_NODES[faulty] if i == where else None
        nest = (lambda n: {"type": "object", "properties": {"outer": {"type": "object", "properties": {"inner": n}}, "k": {"type": "integer"}}})
        op: dict[str, Any] = {"operationId": f"create_export{i}" if i % 2 else f"createExport{i}", "tags": ["ops"],
                              "responses": {"200": {"description": "ok", "content": {"application/json": {"schema": good(i)}}}}}
        op["requestBody"] = {"required": True, "content": {"application/json": {"schema": good(i)}}}
        if bad is not None:
            if position == "request":
                op["requestBody"]["content"]["application/json"]["schema"] = nest(bad)
            elif position == "response":
                op["responses"]["200"]["content"]["application/json"]["schema"] = nest(bad)
            else:
                op["parameters"] = [{"name": "filter", "in": "query", "schema": nest(bad)}]
        paths[f"/op{i}/exports"] = {"post": op}
    return {"openapi": "3.0.3", "info": {"title": "O", "version": "1"}, "paths": paths,
            "components": {"schemas": {"Base": {"type": "object", "properties": {"b": {"type": "string"}, "again": {"$ref": "#/components/schemas/Base"}}}}}}


def run_doc(ctx: Ctx, mon: Mon, ldr, doc: dict, desc: dict, nontrivial: bool, feats: list[str]) -> None:
    rec = ctx.rec
    mon.reset()
    rec.case(desc, nontrivial=nontrivial)
    outcome = "ok"
    rec0 = mon.recursion_errors
    try:
        import warnings as _w
        with _w.catch_warnings(record=True) as wlist:
            _w.simplefilter("always")
            ldr.load_ir_from_spec(doc)
        desc["_warnings"] = [str(x.message)[:80] for x in wlist]
    except StepBudget:
        outcome = "step_budget"
        mon.problem("termination:step_budget_exceeded", f"more than {mon.budget} enter events")
    except RecursionError as e:
        outcome = "RecursionError"
        mon.problem("termination:RecursionError", repr(e)[:200])
    except Exception as e:
        outcome = f"raise:{type(e).__name__}"
        rec.count("load_raised")
        rec.seen("load_exceptions", f"{type(e).__name__}: {str(e)[:80]}")
        if "was not parsed" in str(e):
            mon.problem("final:declared_name_missing", str(e)[:200])
    if desc.get("kind") == "operations" and mon.final_ctx is not None:
        # the whole document has been loaded: every operation-level inline schema was a top-level parse of its own
        u = mon.final_ctx.unified_cycle_context
        rec.count("rest_state_checks_after_operations")
        import pyopenapi_gen.core.parsing.unified_cycle_detection as ucd
        if u.recursion_depth != 0 or mon.shadow != 0:
            mon.problem("rest:depth_nonzero", f"after the operations were parsed: tracker depth {u.recursion_depth}, shadow {mon.shadow}")
        if u.schema_stack or mon.stack:
            mon.problem("rest:stack_nonempty", f"after the operations were parsed: stack {u.schema_stack} shadow {mon.stack}")
        inprog = [k for k, v in u.schema_states.items() if v == ucd.SchemaState.IN_PROGRESS]
        if inprog:
            mon.problem("rest:in_progress_left", f"after the operations were parsed: {inprog}")
        rec.count("operations_skipped_by_loader", sum(1 for w in desc.get("_warnings", []) if "Skipping operation" in w))
    if mon.recursion_errors > rec0:
        mon.problem("termination:RecursionError_raised_inside_load", f"{mon.recursion_errors - rec0} RecursionError raise events")
    rec.counters["max_shadow_depth"] = max(rec.counters.get("max_shadow_depth", 0), mon.peak)
    rec.seen("outcomes", outcome)
    desc = {k: v for k, v in desc.items() if k != "_warnings"}
    for sig, detail in mon.problems:
        rec.violation(sig, feats, {"desc": desc, "doc": doc if len(str(doc)) < 6000 else None, "limit": mon.limit}, detail)
    if len(rec.samples) < 2 and nontrivial:
        rec.sample({"desc": desc, "limit": mon.limit, "enter_events": mon.events, "peak_depth": mon.peak, "outcome": outcome})


def graph_cases(ctx: Ctx, nset: int, idx_in_set: int):
    """Yield (desc, doc, nontrivial, feats) for this worker (idx_in_set of nset workers share one setting)."""
    # "rewritten": declared names that class-name derivation rewrites (HTTPAlpha, beta_node): the tracker keys its states by the
    # declared name, the registry of finished schemas by the derived one
    schemes = ["plain", "prefix", "itemish", "rewritten"] if ctx.quick else ["plain", "prefix", "propcase", "itemish", "rewritten"]
    i = 0
    for edges in graphgen.all_graphs(2):
        for order in itertools.permutations(range(2)):
            for scheme in schemes:
                i += 1
                if i % nset != idx_in_set:
                    continue
                v31 = any(k == "array_inline" for k in edges.values()) and (i // nset) % 2 == 0
                yield _mk(2, edges, order, scheme, v31)
    # denser three-schema graphs (hubs closing several cycles at once need >= 4-5 edges): every reference-only graph on
    # 3 schemas, and a FIXED pseudo-random sample of mixed-kind graphs with 4-6 edges (fixed so that the extent of the
    # recorded finding on this workload does not depend on VERIF_SEED)
    import random as _random

    for bits in range(1, 512):
        edges3 = {(a, b): "ref" for k, (a, b) in enumerate(itertools.product(range(3), repeat=2)) if bits >> k & 1}
        if len(edges3) < 4:
            continue
        i += 1
        if i % nset != idx_in_set:
            continue
        yield _mk(3, edges3, (0, 1, 2) if bits % 2 else (2, 0, 1), "plain", False)
    fixed = _random.Random(20240501)
    for _ in range(400):
        pairs = fixed.sample(list(itertools.product(range(3), repeat=2)), fixed.randint(4, 6))
        edges3 = {p: fixed.choice(["ref", "ref", "array_ref", "inline_obj", "addl_props", "one_of", "array_inline"]) for p in pairs}
        order3 = tuple(fixed.sample(range(3), 3))
        scheme3 = fixed.choice(["plain", "prefix", "itemish"])
        i += 1
        if i % nset != idx_in_set:
            continue
        yield _mk(3, edges3, order3, scheme3, False)
    if not ctx.quick:
        for edges in graphgen.all_graphs(3, max_edges=3):
            for order in itertools.permutations(range(3)):
                i += 1
                if i % nset != idx_in_set:
                    continue
                yield _mk(3, edges, order, "plain" if i % 3 else "prefix", False)
        for _ in range(1500):
            n = ctx.rng.randint(4, 6)
            edges = graphgen.random_graph(ctx.rng, n, ctx.rng.choice([0.15, 0.3, 0.5]))
            order = list(range(n))
            ctx.rng.shuffle(order)
            yield _mk(n, edges, tuple(order), ctx.rng.choice(["plain", "prefix", "propcase", "itemish"]), ctx.rng.random() < 0.3)


def _mk(n, edges, order, scheme, v31):
    doc, _ = graphgen.build_doc(n, edges, order, scheme, openapi31=v31)
    cyc = graphgen.has_cycle(n, edges)
    feats = ["graph", f"scheme_{scheme}"]
    if cyc:
        feats.append("cyclic_graph")
    if graphgen.has_cycle(n, edges, {"all_of"}):
        feats.append("allof_cycle")
    desc = {"n": n, "edges": graphgen.edges_key(edges), "order": list(order), "scheme": scheme, "v31": v31}
    return desc, doc, cyc, feats


def setup(ctx: Ctx):
    limit = SETTINGS[ctx.shard % len(SETTINGS)]
    os.environ["PYOPENAPI_MAX_DEPTH"] = str(limit)
    common.use_repo()
    logging.disable(logging.CRITICAL)
    import warnings

    warnings.simplefilter("ignore")
    mon = Mon(ctx.rec, limit)
    ldr = install(mon)
    return limit, mon, ldr


def run_shard(ctx: Ctx) -> None:
    limit, mon, ldr = setup(ctx)
    nset = max(1, ctx.nshards // len(SETTINGS))
    idx = ctx.shard // len(SETTINGS)
    if idx >= nset:
        return
    ctx.rec.seen("settings", limit)
    for desc, doc, nontrivial, feats in graph_cases(ctx, nset, idx):
        desc["limit"] = limit
        run_doc(ctx, mon, ldr, doc, desc, nontrivial, feats)
    # deep chains and nestings: only worker 0 of each setting (they are few)
    if idx == 0:
        for kind in ["ref", "array_ref", "inline_obj", "array_inline", "addl_props", "one_of", "all_of"]:
            for length in sorted({limit + 1, 2 * limit + 5, min(3 * limit + 7, 330)}):
                for rerefs in (0, 3):
                    doc = chain_doc(kind, length, rerefs)
                    run_doc(ctx, mon, ldr, doc, {"chain": kind, "length": length, "rerefs": rerefs, "limit": limit},
                            True, ["deep_chain", f"chain_{kind}"])
        # operations with inline schemas, one of which makes parsing raise (the loader skips it and carries on)
        for faulty in FAULTY_NODES:
            for position in ("request", "response", "parameter"):
                for where, nops in ((0, 3), (1, 4)) + (((3, 45),) if position == "request" else ()):
                    desc = {"kind": "operations", "faulty": faulty, "position": position, "where": where, "nops": nops, "limit": limit}
                    run_doc(ctx, mon, ldr, ops_doc(faulty, position, where, nops), desc, True, ["operations_with_faulty_inline_schema"])
                    ctx.rec.count("operation_documents")
        run_doc(ctx, mon, ldr, ops_doc("required_true_on_property", "none", -1, 6),
                {"kind": "operations", "faulty": None, "nops": 6, "limit": limit}, True, ["operations_inline_schemas"])
        for depth in sorted({limit + 1, 2 * limit + 5}):
            for via_array in (False, True):
                run_doc(ctx, mon, ldr, nest_doc(min(depth, 320), via_array),
                        {"nest": depth, "via_array": via_array, "limit": limit}, True, ["deep_nest"])
        # validator-enabled sample
        import pyopenapi_gen.core.loader.loader as L

        try:
            from openapi_spec_validator import validate as vs

            L.validate_spec = vs
            k = 0
            for desc, doc, nontrivial, feats in graph_cases(ctx, 97, 3):
                desc["limit"] = limit
                desc["validator"] = True
                run_doc(ctx, mon, ldr, doc, desc, nontrivial, feats)
                ctx.rec.count("validator_enabled_loads")
                k += 1
                if k >= (40 if ctx.quick else 400):
                    break
        finally:
            L.validate_spec = None
        if not ctx.quick:
            import json
            import glob

            for p in sorted(glob.glob(str(common.REPO_ROOT / "input" / "*.json"))):
                try:
                    doc = json.loads(open(p).read())
                except Exception:
                    continue
                run_doc(ctx, mon, ldr, doc, {"corpus": os.path.basename(p), "limit": limit}, True, ["corpus"])
    ctx.rec.counters["max_return_sites_seen"] = len(mon.return_lines_seen)
    for ln in mon.return_lines_seen:
        ctx.rec.seen("return_sites_reached", ln)
    for ln in mon.all_return_lines - mon.return_lines_seen:
        ctx.rec.seen(f"return_sites_not_reached_limit{limit}", ln)


def finalize(m: dict, tier: str, seed: int) -> None:
    n = len(m["sets"].get("return_sites_reached", ()))
    m["counters"]["return_sites_reached_union"] = n
    if n < MIN_RETURN_SITES:
        m["inconclusive"].append(f"only {n} return sites of _parse_schema reached (floor {MIN_RETURN_SITES})")
    if len(m["sets"].get("settings", ())) < len(SETTINGS):
        m["inconclusive"].append("not every PYOPENAPI_MAX_DEPTH setting was exercised")


def replay(ctx: Ctx, file: dict) -> None:
    c = file["case"]
    os.environ["PYOPENAPI_MAX_DEPTH"] = str(c["limit"])
    common.use_repo()
    logging.disable(logging.CRITICAL)
    mon = Mon(ctx.rec, c["limit"])
    ldr = install(mon)
    d = c["desc"]
    if c.get("doc"):
        doc = c["doc"]
    elif d.get("kind") == "operations":
        doc = ops_doc(d["faulty"] or "required_true_on_property", d.get("position", "none"), d.get("where", -1), d["nops"])
    elif "chain" in d:
        doc = chain_doc(d["chain"], d["length"], d["rerefs"])
    else:
        doc = nest_doc(min(d["nest"], 320), d["via_array"])
    run_doc(ctx, mon, ldr, doc, d, True, file.get("features", []))
