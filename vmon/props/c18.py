"""C18 — stream decoders are independent of how the bytes are chunked.

Monitors: (1) chunking-invariance oracle: items yielded for a chunking == items for the unsplit stream
(same exception type if the unsplit stream raises); (2) reference-model oracle for streams from the plain
grammar: one event per blank-line-terminated block, data lines joined by \n, comments ignored, final
unterminated event delivered; NDJSON: one value per non-blank line; iter_bytes: concatenation equality.
Runs the real helpers in /repo/src/pyopenapi_gen/core/streaming_helpers.py over httpx.Response objects
built on an async chunk iterator.
"""
from __future__ import annotations

import asyncio
import itertools
import json
from typing import Any

from .. import common
from ..common import Ctx

LEVEL = "exploration"
SHARDS = {"quick": 16, "thorough": 16}
FLOOR = {"quick": 20000, "thorough": 500000}
REQUIRED_COUNTERS = ["split_inside_multibyte", "split_inside_crlf", "split_between_event_lines", "concurrent_batches", "aborted_streams",
                     "batches_with_interleaved_delivery",
                     "refmodel_checks", "items_yielded"]
RULE = ("streams from a seeded SSE/NDJSON grammar (LF/CRLF/CR terminators, multi-line data, comments, empty data, "
        "event/id/retry, 2-4 byte UTF-8, unterminated final event); all 2^(n-1) chunkings of streams <= 14 bytes, "
        "all single and double split points plus random chunkings for longer ones; a case = (decoder, stream, "
        "chunking); non-trivial = chunking has >= 2 chunks")
ASSUMPTIONS = ["httpx.Response over an async iterator models the network's chunking",
               "reference model is applied only to streams of the plain grammar (no U+2028-class line breaks, "
               "no comment-only blocks, no colon-less field lines)"]

TERMS = ["\n", "\r\n", "\r"]
PAYLOADS = ["a", "", "x y", "é", "日本", "😀", "a:b", "{\"k\": 1}", "ü:ß", "0"]


def gen_sse(rng, plain: bool, maxlen: int | None = None) -> tuple[bytes, list[tuple] | None]:
    """Return (byte stream, expected events or None when the reference model does not apply)."""
    mixed = rng.random() < 0.3
    term0 = rng.choice(TERMS)

    last_t = [""]

    def T(blank: bool = False) -> str:
        t = rng.choice(TERMS) if mixed else term0
        if blank and last_t[0] == "\r" and t == "\n":
            t = "\r\n"  # a lone CR followed by a lone LF would read as one CRLF
        last_t[0] = t
        return t

    out, expected = [], []
    nev = rng.randint(1, 4)
    for e in range(nev):
        data, ev, id_, retry = [], None, None, None
        nlines = rng.randint(1, 3)
        any_field = False
        lines = []
        for _ in range(nlines):
            k = rng.random()
            sp = rng.choice(["", " "])
            if k < 0.6:
                v = rng.choice(PAYLOADS)
                lines.append(f"data:{sp}{v}")
                data.append(v)
                any_field = True
            elif k < 0.7:
                v = rng.choice(["msg", "upd", "é"])
                lines.append(f"event:{sp}{v}")
                ev = v
                any_field = True
            elif k < 0.8:
                v = str(rng.randint(0, 99))
                lines.append(f"id:{sp}{v}")
                id_ = v
                any_field = True
            elif k < 0.87:
                if rng.random() < 0.25:
                    # a retry field that is not an integer is ignored (the previous value stands)
                    lines.append(f"retry:{sp}{rng.choice(['soon', '1.5', '', '12ms'])}")
                else:
                    v = rng.randint(0, 5000)
                    lines.append(f"retry:{sp}{v}")
                    retry = v
                any_field = True
            else:
                lines.append(":" + rng.choice(["", " c", "ping é"]))
        if not plain and rng.random() < 0.3:
            lines.append(rng.choice(["data", "data: x", "x\x0by: 1", "data: a\x85b", "﻿data: q"]))
            any_field = True
        if not any_field:
            if plain:
                lines.append("data:k")
                data.append("k")
            else:
                pass
        last = e == nev - 1
        unterminated = last and rng.random() < 0.4
        for i, ln in enumerate(lines):
            out.append(ln)
            if unterminated and i == len(lines) - 1 and rng.random() < 0.5:
                break
            out.append(T())
        else:
            if not unterminated:
                out.append(T(True))
                if rng.random() < 0.15:
                    out.append(T(True))  # extra blank line
        expected.append(("\n".join(data), ev, id_, retry))
    s = "".join(out).encode("utf-8")
    return s, (expected if plain else None)


def gen_ndjson(rng, plain: bool) -> tuple[bytes, list[Any] | None]:
    recs, out = [], []
    term = rng.choice(["\n", "\r\n"])
    n = rng.randint(1, 4)
    for i in range(n):
        v = rng.choice([{"a": 1}, {"t": "é日"}, [1, 2], "s", 3, {"n": None, "q": "😀"}, {"k": "a b"}])
        if not plain and rng.random() < 0.3:
            v = {"u": "x y"}
        recs.append(v)
        out.append(json.dumps(v, ensure_ascii=rng.random() < 0.3, separators=(",", ":")))
        if i < n - 1 or rng.random() < 0.6:
            out.append(term)
            if rng.random() < 0.2:
                out.append(term)
    return "".join(out).encode(), (recs if plain else None)


async def _agen(chunks):
    for c in chunks:
        yield c


async def decode(fn, chunks: list[bytes]) -> Any:
    import httpx

    r = httpx.Response(200, content=_agen(chunks))
    try:
        return [x async for x in fn(r)]
    except Exception as e:  # outcome is part of the observation
        return ("EXC", type(e).__name__)


def norm(kind: str, items: Any) -> Any:
    if isinstance(items, tuple):
        return items
    if kind == "sse":
        return [(e.data, e.event, e.id, e.retry) for e in items]
    if kind == "bytes":
        return b"".join(items)
    return items


def split(s: bytes, points: tuple[int, ...]) -> list[bytes]:
    res, prev = [], 0
    for p in points:
        res.append(s[prev:p])
        prev = p
    res.append(s[prev:])
    return res


def classify(s: bytes, points: tuple[int, ...], rec) -> None:
    for p in points:
        if 0 < p < len(s):
            if (s[p] & 0xC0) == 0x80:
                rec.count("split_inside_multibyte")
            if s[p - 1:p + 1] == b"\r\n":
                rec.count("split_inside_crlf")
            if s[p - 1:p] in (b"\n", b"\r") and s[p:p + 1] not in (b"\n", b"\r", b""):
                rec.count("split_between_event_lines")


def chunkings(ctx: Ctx, s: bytes):
    n = len(s)
    if n <= 1:
        return
    if n <= 14:
        for mask in range(1, 2 ** (n - 1)):
            yield tuple(i + 1 for i in range(n - 1) if mask >> i & 1)
        return
    for i in range(1, n):
        yield (i,)
    pts = list(range(1, n))
    pairs = list(itertools.combinations(pts, 2))
    lim = 300 if ctx.quick else 4000
    if len(pairs) > lim:
        pairs = ctx.rng.sample(pairs, lim)
    yield from pairs
    for _ in range(60 if ctx.quick else 600):
        k = ctx.rng.randint(3, min(n - 1, 12))
        yield tuple(sorted(ctx.rng.sample(pts, k)))
    yield tuple(pts)  # one byte per chunk


async def check_stream(ctx: Ctx, kind: str, fns: dict, s: bytes, expected: Any, plain: bool) -> None:
    rec = ctx.rec
    base = {}
    for name, fn in fns.items():
        k = "sse" if name == "iter_sse" else ("bytes" if name == "iter_bytes" else "other")
        base[name] = norm(k, await decode(fn, [s]))
        rec.count("items_yielded", len(base[name]) if isinstance(base[name], (list, bytes)) else 0)
    feats = ["plain_grammar" if plain else "wide_grammar", kind]
    # reference model on the unsplit stream
    if expected is not None:
        rec.count("refmodel_checks")
        if kind == "sse":
            if base["iter_sse"] != expected:
                rec.violation("refmodel:iter_sse", feats, {"stream": s.decode("utf-8", "replace"), "kind": kind, "decoder": "iter_sse",
                                                            "expected": [list(x) for x in expected], "hex": s.hex(), "points": []},
                              f"expected {expected!r} got {base['iter_sse']!r}")
            exp_text = [d for d, *_ in expected if d]
            if base["iter_sse_events_text"] != exp_text:
                rec.violation("refmodel:iter_sse_events_text", feats, {"hex": s.hex(), "kind": kind, "points": [], "decoder": "iter_sse_events_text", "expected": exp_text},
                              f"expected {exp_text!r} got {base['iter_sse_events_text']!r}")
        else:
            if base["iter_ndjson"] != expected:
                rec.violation("refmodel:iter_ndjson", feats, {"hex": s.hex(), "kind": kind, "points": [], "decoder": "iter_ndjson", "expected": expected},
                              f"expected {expected!r} got {base['iter_ndjson']!r}")
    if base.get("iter_bytes") != s:
        rec.violation("refmodel:iter_bytes", feats, {"hex": s.hex(), "kind": kind, "points": []}, "concat differs")
    for pts in chunkings(ctx, s):
        chunks = split(s, pts)
        classify(s, pts, rec)
        rec.seen("chunk_counts", len(chunks))
        for name, fn in fns.items():
            k = "sse" if name == "iter_sse" else ("bytes" if name == "iter_bytes" else "other")
            got = norm(k, await decode(fn, chunks))
            h = rec.case(f"{name}|{s.hex()}|{pts}", nontrivial=len(chunks) >= 2)
            if got != base[name]:
                rec.violation(f"chunking:{name}", feats,
                              {"hex": s.hex(), "kind": kind, "points": list(pts), "decoder": name},
                              f"unsplit {base[name]!r} vs chunked {got!r}")
    if len(rec.samples) < 3:
        rec.sample({"kind": kind, "stream": s.decode("utf-8", "replace"), "bytes": len(s),
                    "unsplit_items": repr(base.get("iter_sse", base.get("iter_ndjson")))[:300]})


async def _agen_sched(chunks, sched, log, sid, fail_after=None):
    """Chunks arrive with a schedule-dependent number of event-loop turns in between (other streams run meanwhile)."""
    import httpx

    for i, c in enumerate(chunks):
        for _ in range(sched[i % len(sched)]):
            await asyncio.sleep(0)
        if fail_after is not None and i == fail_after:
            raise httpx.ReadError("connection dropped (injected)")
        log.append(sid)
        yield c


async def decode_sched(fn, chunks, sched, log, sid, fail_after=None):
    import httpx

    r = httpx.Response(200, content=_agen_sched(chunks, sched, log, sid, fail_after))
    out = []
    try:
        async for x in fn(r):
            out.append(x)
    except Exception as e:
        return out, type(e).__name__
    return out, None


async def run_concurrent_case(ctx: Ctx, fns: dict, case: dict) -> None:
    """case = {"decoder", "kind", "streams": [{"hex", "points", "sched"}], "abort": {...} | None}"""
    rec = ctx.rec
    fn = fns[case["decoder"]]
    k = "sse" if case["decoder"] == "iter_sse" else "other"
    streams = [(bytes.fromhex(x["hex"]), tuple(x["points"]), x["sched"]) for x in case["streams"]]
    base = [norm(k, await decode(fn, [s])) for s, _, _ in streams]
    log: list[int] = []
    feats = ["interleaved_streams", case["kind"]]
    if case.get("abort"):
        # a stream whose connection drops in the middle of an event, then fresh streams decoded by the same process
        a = case["abort"]
        got, exc = await decode_sched(fn, split(bytes.fromhex(a["hex"]), tuple(a["points"])), [0], log, -1, fail_after=a["fail_after"])
        rec.count("aborted_streams")
        if exc is None:
            rec.count("aborted_stream_did_not_raise_diagnostic")
    res = await asyncio.gather(*[decode_sched(fn, split(s, pts), sched, log, i) for i, (s, pts, sched) in enumerate(streams)])
    rec.count("concurrent_batches")
    rec.count("concurrent_streams", len(streams))
    order = tuple(log)
    rec.seen("delivery_orders", hash(order) % 10 ** 9)
    if any(order[i] != order[i + 1] for i in range(len(order) - 1)) and len(set(order)) > 1:
        rec.count("batches_with_interleaved_delivery")
    rec.case({"concurrent": case}, nontrivial=len(streams) >= 2 or bool(case.get("abort")))
    for i, (got, exc) in enumerate(res):
        g = norm(k, got) if exc is None else ("EXC", exc)
        if g != base[i]:
            sig = "after_aborted_stream" if case.get("abort") and len(streams) == 1 else "concurrent_streams"
            rec.violation(f"interleaving:{sig}:{case['decoder']}", feats, {"concurrent": case, "stream_index": i},
                          f"stream {i}: unsplit alone {base[i]!r} vs chunked beside other streams {g!r}")


def concurrent_cases(ctx: Ctx, n: int):
    rng = ctx.rng
    for _ in range(n):
        use_sse = rng.random() < 0.75
        decoder = rng.choice(["iter_sse", "iter_sse_events_text"]) if use_sse else "iter_ndjson"
        streams = []
        for _k in range(rng.choice([1, 2, 2, 3])):
            while True:
                s, _e = gen_sse(rng, True) if use_sse else gen_ndjson(rng, True)
                if len(s) >= 8:
                    break
            pts = tuple(sorted(rng.sample(range(1, len(s)), min(len(s) - 1, rng.randint(2, 9)))))
            streams.append({"hex": s.hex(), "points": list(pts), "sched": [rng.randint(0, 2) for _ in range(5)]})
        abort = None
        if rng.random() < 0.4:
            while True:
                s, _e = gen_sse(rng, True) if use_sse else gen_ndjson(rng, True)
                if len(s) >= 12:
                    break
            pts = tuple(sorted(rng.sample(range(1, len(s)), min(len(s) - 1, 4))))
            abort = {"hex": s.hex(), "points": list(pts), "fail_after": rng.randint(1, len(pts))}
            if rng.random() < 0.5:
                streams = streams[:1]
        yield {"decoder": decoder, "kind": "sse" if use_sse else "ndjson", "streams": streams, "abort": abort}


def helpers():
    common.use_repo()
    from pyopenapi_gen.core import streaming_helpers as sh

    sse = {"iter_sse": sh.iter_sse, "iter_sse_events_text": sh.iter_sse_events_text, "iter_bytes": sh.iter_bytes}
    nd = {"iter_ndjson": sh.iter_ndjson, "iter_bytes": sh.iter_bytes}
    return sse, nd


def run_shard(ctx: Ctx) -> None:
    sse, nd = helpers()
    rng = ctx.rng
    nshort = 3 if ctx.quick else 40
    nlong = 6 if ctx.quick else 120

    async def go() -> None:
        # short streams, exhaustive chunkings
        done = 0
        tries = 0
        while done < nshort and tries < 5000:
            tries += 1
            plain = rng.random() < 0.7
            if rng.random() < 0.75:
                s, exp = gen_sse(rng, plain)
                kind, fns = "sse", sse
            else:
                s, exp = gen_ndjson(rng, plain)
                kind, fns = "ndjson", nd
            if not (6 <= len(s) <= 14):
                continue
            done += 1
            ctx.rec.count("short_streams_exhaustive")
            await check_stream(ctx, kind, fns, s, exp, plain)
        for i in range(nlong):
            plain = rng.random() < 0.7
            if rng.random() < 0.7:
                s, exp = gen_sse(rng, plain)
                kind, fns = "sse", sse
            else:
                s, exp = gen_ndjson(rng, plain)
                kind, fns = "ndjson", nd
            if len(s) <= 14:
                continue
            ctx.rec.count("long_streams")
            await check_stream(ctx, kind, fns, s, exp, plain)
        # several streams decoded at the same time on one event loop (chunk boundaries are where they interleave), and
        # fresh streams decoded after one whose connection dropped in the middle of an event
        for case in concurrent_cases(ctx, 60 if ctx.quick else 1500):
            await run_concurrent_case(ctx, sse if case["kind"] == "sse" else nd, case)

    asyncio.run(go())


def replay(ctx: Ctx, file: dict) -> None:
    sse, nd = helpers()
    c = file["case"]
    if "concurrent" in c:
        asyncio.run(run_concurrent_case(ctx, sse if c["concurrent"]["kind"] == "sse" else nd, c["concurrent"]))
        return
    s = bytes.fromhex(c["hex"])
    fns = sse if c.get("kind") == "sse" else nd

    async def go() -> None:
        for name, fn in fns.items():
            k = "sse" if name == "iter_sse" else ("bytes" if name == "iter_bytes" else "other")
            base = norm(k, await decode(fn, [s]))
            got = norm(k, await decode(fn, split(s, tuple(c.get("points") or ()))))
            ctx.rec.case(f"{name}|{c['hex']}|{c.get('points')}")
            if got != base:
                ctx.rec.violation(f"chunking:{name}", file.get("features", []), c, f"unsplit {base!r} vs {got!r}")
            if c.get("expected") is not None and name == c.get("decoder") and json.loads(json.dumps(base, default=list)) != c["expected"]:
                ctx.rec.violation(f"refmodel:{name}", file.get("features", []), c, f"expected {c['expected']!r} got {base!r}")

    asyncio.run(go())
