"""C03 — model JSON round-trip preserves every value and wire key.

For every generated model and schema-conforming instance: structure_from_dict then unstructure_to_dict with the emitted
package's OWN core.cattrs_converter, in a fresh interpreter, must give back the input JSON under the tolerance the
property states (absent optional may reappear as null / [] / {}; date-times by instant, not spelling).
"""
from __future__ import annotations

import json

from .. import common, genrun, instgen, refmodel, richgen, shapes, specgen
from ..common import Ctx

LEVEL = "exploration"
SHARDS = {"quick": 16, "thorough": 16}
FLOOR = {"quick": 900, "thorough": 40000}
REQUIRED_COUNTERS = ["roundtrips", "models_exercised", "instances_min", "instances_max", "instances_nulls",
                     "wire_keys_checked", "formatted_values_checked", "rich_roundtrips", "shapes_roundtrips"]
RULE = ("generated models of documents from the grammar (nested objects, lists, maps, nullable, formats date-time/date/uuid/time/byte/"
        "email/uri/hostname, enums, inline objects, allOf, 7 property-name styles) x instances (required-only, all properties, random "
        "subsets, explicit nulls); case = (model, instance); non-trivial = instance has a nested container, formatted leaf or renamed key")
ASSUMPTIONS = ["model located by alphanumeric case-folded match between the schema name and the names exported by <pkg>.models"]

MODES = ["min", "max", "random", "random", "nulls"]


def count_formats(v, rec):
    if isinstance(v, dict):
        for x in v.values():
            count_formats(x, rec)
    elif isinstance(v, list):
        for x in v:
            count_formats(x, rec)
    elif isinstance(v, str) and len(v) >= 8 and (v[4:5] == "-" or v[2:3] == ":" or "@" in v or "://" in v):
        rec.count("formatted_values_checked")


def run_doc(ctx: Ctx, it: dict) -> None:
    rec, rng = ctx.rec, ctx.rng
    root = ctx.scratch.new("proj")
    d: specgen.Doc = it["doc"]
    pkg = f"c{it['n']}"
    feats = sorted(d.features)
    case_base = {"doc": d.doc, "sexp": d.sexp, "features": feats}
    res = genrun.generate(d.doc, root, pkg, None, spec_path=genrun.write_spec(d.doc, root / f"spec{it['n']}"))
    if not res.ok:
        rec.count("generations_rejected")
        return
    rts = it.get("roundtrips")
    if rts is None:
        rts = []
        for name, e in d.sexp.items():
            if e["kind"] not in ("object", "array_alias", "map_alias"):
                continue
            for k in range(len(MODES) * (1 if ctx.quick else 3)):
                mode = MODES[k % len(MODES)]
                inst = instgen.named(rng, name, d.sexp, mode)
                rts.append({"id": f"{name}-{k}", "model": name, "json": inst, "_mode": mode})
            # the same document WITHOUT its optional properties that declare a default (the statement tolerates null or an
            # empty container for an absent optional property, nothing else)
            defaulted = [pn for pn, pe in (e.get("props") or {}).items() if "default" in pe and not pe.get("required")]
            if defaulted:
                inst = instgen.named(rng, name, d.sexp, "max")
                if isinstance(inst, dict) and any(pn in inst for pn in defaulted):
                    rts.append({"id": f"{name}-omitdef", "model": name, "json": {k2: v for k2, v in inst.items() if k2 not in defaulted},
                                "_mode": "omits_defaulted", "_omits_default": True})
    # the converter registers hooks lazily on first use of each class (process-global state): vary the first-use order.
    # Referrers before the models they contain is the order a real client meets (a response model is decoded first).
    if it.get("roundtrips") is None:
        order_mode = rng.choice(["referrers_first", "referrers_first", "random", "declaration"])
        rec.seen("first_use_orders", order_mode)
        if order_mode == "referrers_first":
            names = list(d.sexp)
            rts.sort(key=lambda r: -names.index(r["model"]))
        elif order_mode == "random":
            rng.shuffle(rts)
    job = {"root": str(root), "packages": [{"pkg": pkg, "core": pkg + ".core"}], "actions": ["roundtrips"],
           "roundtrips": [{k: v for k, v in r.items() if not k.startswith("_")} for r in rts]}
    out = genrun.run_probe(job, root / "probe")
    if "probe_error" in out:
        rec.count("probe_failed_diagnostic")
        return
    po = out["packages"][pkg]["roundtrips"]
    models = set()
    # keys for which "absent == null" is tolerated: declared property names (never the keys of a map)
    prop_names: set[str] = set()

    def collect(e: dict) -> None:
        for pn, pe in (e.get("props") or {}).items():
            prop_names.add(pn)
            collect(pe)
        for sub in ("items", "values"):
            if isinstance(e.get(sub), dict):
                collect(e[sub])
    for e in d.sexp.values():
        collect(e)
    model_feats = getattr(d, "model_feats", None) or it.get("model_feats") or {}
    phase = it.get("phase", "")
    for r in rts:
        o = po["results"].get(r["id"])
        if o is None:
            continue
        feats = sorted(d.features)
        if r.get("_omits_default"):
            feats = feats + ["instance_omits_defaulted_property"]
            rec.count("instances_omitting_a_defaulted_property")
        case = dict(case_base, roundtrip={"model": r["model"], "json": r["json"]}, phase=phase)
        if model_feats:
            # rich grammar: a violation is attributed to the shapes inside THIS model, not to the whole document
            feats = list(model_feats.get(r["model"], [])) + [phase or "rich"] + (["instance_omits_defaulted_property"] if r.get("_omits_default") else [])
            case["model_feats"] = model_feats
            rec.count(f"{phase or 'rich'}_roundtrips")
            if phase == "shapes":
                rec.seen("shapes_exercised", d.sexp[r["model"]].get("shape"))
        rec.case({"d": common.chash(d.doc), "m": r["model"], "j": r["json"]}, nontrivial=instgen.nontrivial(r["json"]))
        rec.count("roundtrips")
        rec.count(f"instances_{r.get('_mode', 'x')}")
        models.add(r["model"])
        if isinstance(r["json"], dict):
            rec.count("wire_keys_checked", len(r["json"]))
        count_formats(r["json"], rec)
        if o["stage"] == "import":
            rec.count("model_not_importable_diagnostic")  # C01 / C02 decide these
            continue
        if o["stage"] != "ok":
            e = o["exc"]
            import re
            full = e["msg"]
            if "ForwardRef" in full:
                cls = "forward_ref_unresolved"
            elif "Unsupported type" in full:
                cls = "unsupported_type"
            elif phase:
                first = full.split("\n")[0]
                rest = first.split(": ", 1)[1] if ": " in first else ""
                # "Failed to convert data to X:" + detail lines, or the whole message on the first line
                line = rest if rest.strip() else full.split("\n")[1 if "\n" in full else 0]
                line = re.sub(r"^- [^:]*: ", "", line)
                line = re.sub(r"c\d+\.models\.[\w.]+", "<model>", line)
                line = re.sub(r"(into|of) .*", r"\1 <type>", line)
                cls = re.sub(r"'[^']*'", "'…'", line)[:60]
            else:
                line = full.split("\n")[1 if "\n" in full else 0]
                line = re.sub(r"'[^']*'", "'…'", line)
                line = re.sub(r"^- [^:]*: ", "- <field>: ", line)
                cls = re.sub(r"\d+", "N", line)[:70]
            rec.violation(f"{phase + ':' if phase else ''}roundtrip:{o['stage']}_raises:{e['type']}:{cls}", feats, case, full[:400])
            if phase == "shapes":
                rec.seen("shapes_failing", d.sexp[r["model"]].get("shape"))
            continue
        diff = refmodel.jdiff(r["json"], o["back"], optional_keys=prop_names)
        if diff:
            kind = "key_lost" if "lost" in diff else ("unexpected_key" if "unexpected key" in diff else "value_differs")
            rec.violation(f"{phase + ':' if phase else ''}roundtrip:{kind}", feats, case, diff[:300])
            if phase == "shapes":
                rec.seen("shapes_failing", d.sexp[r["model"]].get("shape"))
    rec.count("models_exercised", len(models))
    for f in d.features:
        rec.seen("features", f)
    if len(rec.samples) < 2 and rts:
        r = rts[len(rts) // 2]
        rec.sample({"schema": d.doc["components"]["schemas"].get(r["model"]), "instance": r["json"], "result": po["results"].get(r["id"])})


TRIGGERS: list[set[str]] = [{"array_self_ref"}, {"format_binary"}]  # both hold on the repaired tree; kept as classes


def mk_doc(ctx: Ctx, trig: set[str]) -> specgen.Doc:
    allow = set(trig) | {"format_uuid", "format_time", "format_binary"}
    return specgen.generate(ctx.rng, allow=allow, prof={"ops": (1, 2), "schemas": (3, 7), "p_union": 0.0, "max_props": 7, "p_self_ref": 0.08})


def run_shard(ctx: Ctx) -> None:
    common.use_repo()
    total = 7 if ctx.quick else 160
    for b in range(total):
        trig: set[str] = set()
        r = ctx.rng.random()
        if r < 0.1:
            trig = TRIGGERS[0]
        elif r < 0.2:
            trig = TRIGGERS[1]
        run_doc(ctx, {"doc": mk_doc(ctx, trig), "n": ctx.shard * 100000 + b})
    # second grammar: compositional type expressions (nullable anything, arrays of arrays, maps of maps / arrays / models,
    # nested inline objects, free-form positions, named maps, named primitive aliases)
    for b in range(4 if ctx.quick else 80):
        x = ctx.rng.random()
        allow = {"object_with_extras"} if x < 0.2 else ({"free_form_empty_schema"} if x < 0.4 else set())
        run_doc(ctx, {"doc": richgen.generate(ctx.rng, allow=allow), "n": ctx.shard * 100000 + 50000 + b, "phase": "rich"})
    # third workload: the exhaustive shape catalogue (every wrapper(wrapper(leaf)) up to two wrappers; thorough: three)
    chunks = shapes.chunked(2 if ctx.quick else 3, 20)
    for ci, chunk in enumerate(chunks):
        if ctx.mine(ci):
            run_doc(ctx, {"doc": shapes.document(chunk), "n": ctx.shard * 100000 + 70000 + ci, "phase": "shapes"})


def replay(ctx: Ctx, file: dict) -> None:
    common.use_repo()
    c = file["case"]
    d = specgen.Doc(c["doc"], c["sexp"], [], set(c["features"]))
    rt = c["roundtrip"]
    run_doc(ctx, {"doc": d, "n": 1, "model_feats": c.get("model_feats"), "phase": c.get("phase", ""),
                  "roundtrips": [{"id": "r0", "model": rt["model"], "json": rt["json"], "_mode": "x"}]})
