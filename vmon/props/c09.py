"""C09 — generation is deterministic; re-running on unchanged input is a no-op.

Differential monitors over real generations: the same document in fresh processes under different PYTHONHASHSEED values,
in a warm process after other documents, with the clock shifted, and into a different output root must give byte-identical
trees (sha256 of every file). A non-force re-run over just-generated output must succeed and leave every file's bytes and
mtime_ns untouched; a non-force run over a tampered tree (one file edited; one file deleted; in the client and in the core)
must fail. In vivo: a recording wrapper on ClientGenerator._show_diffs compares its verdict with an independent comparison.
"""
from __future__ import annotations

import hashlib
import json
import os
import subprocess
from pathlib import Path

from .. import common, genrun, richgen, specgen
from ..common import Ctx

LEVEL = "exploration"
SHARDS = {"quick": 16, "thorough": 16}
FLOOR = {"quick": 150, "thorough": 3000}
REQUIRED_COUNTERS = ["noop_reruns_in_shared_core", "noop_reruns_host_variants", "noop_reruns_postprocessed", "tree_pairs_compared", "fresh_process_generations", "hash_seeds_distinct", "noop_reruns", "files_mtime_checked",
                     "tamper_edit_checks", "tamper_delete_checks", "show_diffs_contract_evals", "explicit_core_layouts", "clock_shifted_runs", "prior_run_scenarios",
                     "spec_rewritten_in_place_scenarios"]
RULE = ("clean documents biased to what makes order matter (many schemas/imports, several path variables, colliding operationIds, inline "
        "enums, streaming) x layouts (embedded default / explicit core) x PYTHONHASHSEED {0,1,2,random} x {fresh, warm, clock-shifted, "
        "other root} + non-force re-run + tampering; case = (document, layout, variant); non-trivial = the two executions compared "
        "really differ in the varied dimension")
ASSUMPTIONS = ["an EXTRA file in the existing tree is recorded but not judged (the statement does not say whether a user's file counts as 'differs')"]

_contract = {"evals": 0, "bad": []}


def install_contract() -> None:
    common.use_repo()
    from pyopenapi_gen.generator.client_generator import ClientGenerator

    if getattr(ClientGenerator._show_diffs, "_vmon", False):
        return
    orig = ClientGenerator._show_diffs

    def wrapped(self, old_dir: str, new_dir: str) -> bool:
        import io
        from contextlib import redirect_stdout

        # independent comparison: a .py file of the fresh tree whose counterpart is different OR absent
        expect = False
        for nf in Path(new_dir).rglob("*.py"):
            of = Path(old_dir) / nf.relative_to(new_dir)
            if not of.exists() or of.read_text().splitlines() != nf.read_text().splitlines():
                expect = True
                break
        with redirect_stdout(io.StringIO()):
            got = orig(self, old_dir, new_dir)
        _contract["evals"] += 1
        if bool(got) != expect:
            _contract["bad"].append(f"_show_diffs returned {got} but an independent comparison says differs={expect}")
        return got

    wrapped._vmon = True  # type: ignore[attr-defined]
    ClientGenerator._show_diffs = wrapped


def digest(root: Path, tops: list[str], with_mtime: bool = False) -> dict:
    out = {}
    for top in tops:
        base = root / top
        for p in sorted(base.rglob("*")):
            if p.is_file() and "__pycache__" not in p.parts:
                h = hashlib.sha256(p.read_bytes()).hexdigest()
                out[str(p.relative_to(root))] = (h, p.stat().st_mtime_ns) if with_mtime else h
    return out


def fresh(ctx: Ctx, spec: Path, root: Path, pkg: str, core, hashseed: str, force=True, clock_shift=0, env_extra: dict | None = None) -> dict:
    env = dict(os.environ)
    env.update(env_extra or {})
    env["PYTHONHASHSEED"] = hashseed
    env["PYTHONPATH"] = str(common.VERIF_ROOT)
    args = {"spec": str(spec), "root": str(root), "pkg": pkg, "core": core, "force": force, "clock_shift": clock_shift}
    try:
        r = subprocess.run([common.PY, "-m", "vmon.gen_cli", json.dumps(args)], env=env, capture_output=True, text=True, timeout=600,
                           cwd=str(common.VERIF_ROOT))
    except subprocess.TimeoutExpired:
        return {"ok": False, "error": "watchdog"}
    ctx.rec.count("fresh_process_generations")
    for line in reversed(r.stdout.splitlines()):
        if line.startswith("{"):
            return json.loads(line)
    return {"ok": False, "error": f"no result: {r.stderr[-300:]}"}


def diff_trees(a: dict, b: dict) -> str | None:
    if a == b:
        return None
    only_a, only_b = sorted(set(a) - set(b)), sorted(set(b) - set(a))
    ch = sorted(f for f in a if f in b and a[f] != b[f])
    return f"only in first {only_a[:3]} only in second {only_b[:3]} changed {ch[:5]}"


def classify_changed(d: str) -> str:
    import re

    m = re.search(r"changed \['([^']*)'", d)
    if not m:
        return "file_set"
    f = m.group(1)
    for part in ("endpoints", "models", "mocks", "core"):
        if f"/{part}/" in f:
            return part
    return f.split("/")[-1]


def run_doc(ctx: Ctx, d: specgen.Doc, n: int, layout: tuple[str, str | None]) -> None:
    rec, rng = ctx.rec, ctx.rng
    pkg, core = layout
    tops = sorted({pkg.split(".")[0]} | ({core.split(".")[0]} if core else set()))
    feats = sorted(d.features) + (["explicit_core_package"] if core else ["default_core"])
    if core:
        rec.count("explicit_core_layouts")
    case = {"doc": d.doc, "layout": list(layout)}
    work = ctx.scratch.new("c09")
    spec = genrun.write_spec(d.doc, work / "spec")
    seeds = ["0", "1", str(rng.randint(2, 10 ** 6))] + ([] if ctx.quick else ["2", "3", "77", "4242", "99991"])
    rec.seen("hash_seeds", ",".join(seeds))
    rec.count("hash_seeds_distinct", len(set(seeds)))
    trees = {}
    for hs in seeds:
        root = work / f"hs{hs}"
        r = fresh(ctx, spec, root, pkg, core, hs)
        if not r.get("ok"):
            if hs == seeds[0]:
                rec.count("generations_rejected")
                return
            rec.violation("determinism:generation_outcome_depends_on_hash_seed", feats, dict(case, variant=f"hashseed={hs}"), str(r.get("error"))[:200])
            continue
        trees[hs] = digest(root, tops)
    base = trees[seeds[0]]
    for hs in seeds[1:]:
        if hs in trees:
            rec.case(dict(case, variant=f"hashseed {seeds[0]} vs {hs}"), nontrivial=True)
            rec.count("tree_pairs_compared")
            dd = diff_trees(base, trees[hs])
            if dd:
                rec.violation(f"determinism:hash_seed:{classify_changed(dd)}", feats, dict(case, variant=f"hashseed={hs}"), dd)
    # warm process (this shard has generated other documents before), other root
    root_w = work / "warm"
    rw = genrun.generate(d.doc, root_w, pkg, core, spec_path=spec)
    rec.case(dict(case, variant="warm process, other root"), nontrivial=True)
    rec.count("tree_pairs_compared")
    if not rw.ok:
        rec.violation("determinism:warm_process_generation_fails", feats, case, (rw.error or "")[:200])
    else:
        dd = diff_trees(base, digest(root_w, tops))
        if dd:
            rec.violation(f"determinism:warm_vs_fresh:{classify_changed(dd)}", feats, dict(case, variant="warm"), dd)
    # prior run with a DIFFERENT document into the same root (force): the result must not remember it
    import copy as _copy

    prev = _copy.deepcopy(d.doc)
    for pth, item in prev["paths"].items():
        for meth, op in item.items():
            if isinstance(op, dict) and "responses" in op:
                op["responses"].setdefault("418", {"description": "teapot"})
                op["responses"].setdefault("507", {"description": "full"})
    prev["components"]["schemas"]["OnlyInPreviousRun"] = {"type": "object", "properties": {"x": {"type": "string"}}}
    root_p = work / "prior"
    spec_prev = genrun.write_spec(prev, work / "spec-prev")
    rp1 = fresh(ctx, spec_prev, root_p, pkg, core, "0")
    if rp1.get("ok"):
        rp2 = fresh(ctx, spec, root_p, pkg, core, "0")
        rec.count("prior_run_scenarios")
        rec.case(dict(case, variant="after a prior run with another document"), nontrivial=True)
        rec.count("tree_pairs_compared")
        if not rp2.get("ok"):
            rec.violation("determinism:prior_run:generation_fails", feats, dict(case, variant="prior_run"), str(rp2.get("error"))[:200])
        else:
            got = digest(root_p, tops)
            # the registry file legitimately lists clients; compare everything else byte for byte, and the registry by content
            dd = diff_trees({k: v for k, v in base.items()}, {k: v for k, v in got.items()})
            if dd:
                rec.violation(f"determinism:prior_run:{classify_changed(dd)}", feats, dict(case, variant="prior_run"), dd)
    # prior run of the SAME document with ANOTHER core layout into the same root (the user moves the core out of, or into,
    # the client package), then a forced run with this layout: everything under the package roots must equal a fresh project
    other_core = None if core else pkg.split(".")[0] + "_rt.core"
    if other_core != core:
        root_l = work / "priorlayout"
        q1 = genrun.generate(d.doc, root_l, pkg, other_core, force=True, spec_path=spec)
        q2 = genrun.generate(d.doc, root_l, pkg, core, force=True, spec_path=spec)
        rec.count("prior_layout_scenarios")
        rec.case(dict(case, variant="prior run with another core layout"), nontrivial=True)
        if q1.ok and q2.ok:
            rec.count("tree_pairs_compared")

            def whole(root):     # every file under the package roots this layout uses, whatever its suffix
                return {str(p.relative_to(root)): hashlib.sha256(p.read_bytes()).hexdigest() for t in tops for p in sorted((root / t).rglob("*"))
                        if p.is_file() and "__pycache__" not in p.parts}

            ref_root = work / f"hs{seeds[0]}"
            dd = diff_trees(whole(ref_root), whole(root_l))
            if dd:
                rec.violation(f"determinism:prior_layout:{classify_changed(dd)}", feats, dict(case, variant="prior_layout", prior_core=other_core), dd)
    # the same spec PATH rewritten in place between two generations of one (warm) process: the second generation must be
    # of the file's current content, i.e. equal to the tree obtained from the same document under another path
    spec_rw = work / "spec-rewritten.json"
    spec_rw.write_text(json.dumps(prev))
    r1 = genrun.generate(prev, work / "rw-first", pkg, core, force=True, spec_path=spec_rw)
    spec_rw.write_text(json.dumps(d.doc))
    r2 = genrun.generate(d.doc, work / "rw-second", pkg, core, force=True, spec_path=spec_rw)
    rec.count("spec_rewritten_in_place_scenarios")
    rec.case(dict(case, variant="spec file rewritten in place, warm process"), nontrivial=True)
    if r1.ok and r2.ok:
        rec.count("tree_pairs_compared")
        dd = diff_trees(base, digest(work / "rw-second", tops))
        if dd:
            rec.violation(f"determinism:spec_rewritten_in_place:{classify_changed(dd)}", feats, dict(case, variant="spec_rewritten"), dd)
    elif r1.ok and not r2.ok:
        rec.violation("determinism:spec_rewritten_in_place:generation_fails", feats, dict(case, variant="spec_rewritten"), (r2.error or "")[:200])
    # clock shifted
    root_c = work / "clock"
    rc = fresh(ctx, spec, root_c, pkg, core, "0", clock_shift=86400 * 400 + 12345)
    rec.count("clock_shifted_runs")
    rec.case(dict(case, variant="clock shifted"), nontrivial=True)
    rec.count("tree_pairs_compared")
    if rc.get("ok"):
        dd = diff_trees(base, digest(root_c, tops))
        if dd:
            rec.violation(f"determinism:clock:{classify_changed(dd)}", feats, dict(case, variant="clock"), dd)
    # non-force re-run over the up-to-date output (in this process, with the _show_diffs contract attached)
    root0 = work / f"hs{seeds[0]}"
    before = digest(root0, tops, with_mtime=True)
    n0 = len(_contract["bad"])
    rr = genrun.generate(d.doc, root0, pkg, core, force=False, spec_path=spec)
    rec.count("noop_reruns")
    rec.case(dict(case, variant="non-force re-run"), nontrivial=True)
    after = digest(root0, tops, with_mtime=True)
    rec.count("files_mtime_checked", len(after))
    if not rr.ok:
        rec.violation("rerun:up_to_date_output_reported_as_different", feats, dict(case, variant="rerun"), (rr.error or "")[:200])
    if before != after:
        ch = sorted(f for f in set(before) | set(after) if before.get(f) != after.get(f))
        rec.violation("rerun:files_touched", feats, dict(case, variant="rerun"), f"{ch[:5]}")
    for b in _contract["bad"][n0:]:
        rec.violation("contract:show_diffs_verdict_wrong", feats, dict(case, variant="rerun"), b)
    # host variations of the same no-op re-run, each in a fresh process: the temporary directory reached through a symbolic
    # link (macOS: /var -> /private/var; TMPDIR=/some/link), and the project root itself reached through a symbolic link
    real_tmp, link_tmp, link_root = work / "tmp-real", work / "tmp-link", work / "root-link"
    real_tmp.mkdir()
    link_tmp.symlink_to(real_tmp)
    link_root.symlink_to(root0)
    for variant, kw in (("tmpdir_through_symlink", {"root": root0, "env_extra": {"TMPDIR": str(link_tmp)}}),
                        ("project_root_through_symlink", {"root": link_root, "env_extra": None})):
        before = digest(root0, tops, with_mtime=True)
        rv = fresh(ctx, spec, kw["root"], pkg, core, "0", force=False, env_extra=kw["env_extra"])
        rec.count("noop_reruns_host_variants")
        rec.case(dict(case, variant=f"non-force re-run, {variant}"), nontrivial=True)
        if not rv.get("ok"):
            rec.violation(f"rerun:up_to_date_output_reported_as_different:{variant}", feats, dict(case, variant=variant), (rv.get("error") or "")[:200])
        elif digest(root0, tops, with_mtime=True) != before:
            rec.violation(f"rerun:files_touched:{variant}", feats, dict(case, variant=variant), "")
    # and a forced generation through the symlinked project root produces the same bytes
    rv = fresh(ctx, spec, link_root, pkg, core, "0", force=True)
    rec.count("tree_pairs_compared")
    if rv.get("ok"):
        dd = diff_trees(base, digest(root0, tops))
        if dd:
            rec.violation(f"determinism:project_root_through_symlink:{classify_changed(dd)}", feats, dict(case, variant="root symlink"), dd)
    # a project root whose path has spaces, non-ASCII letters, a dot-directory and a trailing '..' hop: same bytes, and the
    # immediate re-run is a no-op there as well
    odd = work / "pröj dir (v2)" / ".hidden" / "x y"
    odd.mkdir(parents=True)
    odd_arg = odd / "sub" / ".."
    (odd / "sub").mkdir()
    rv = fresh(ctx, spec, odd_arg, pkg, core, "5", force=True)
    rec.count("tree_pairs_compared")
    rec.case(dict(case, variant="odd project root path"), nontrivial=True)
    if not rv.get("ok"):
        rec.violation("determinism:odd_root_path:generation_fails", feats, dict(case, variant="odd root path"), (rv.get("error") or "")[:200])
    else:
        dd = diff_trees(base, digest(odd, tops))
        if dd:
            rec.violation(f"determinism:odd_root_path:{classify_changed(dd)}", feats, dict(case, variant="odd root path"), dd)
        rv = fresh(ctx, spec, odd_arg, pkg, core, "6", force=False)
        rec.count("noop_reruns_host_variants")
        if not rv.get("ok"):
            rec.violation("rerun:up_to_date_output_reported_as_different:odd_root_path", feats, dict(case, variant="odd root path"), (rv.get("error") or "")[:200])
    # tampering: the non-force run must FAIL when the existing tree differs from what would be generated
    py_files = sorted(f for f in before if f.endswith(".py") and Path(root0, f).stat().st_size > 0)
    if core:
        cands = [f for f in py_files if f.startswith(core.replace(".", "/"))] if rng.random() < 0.5 else py_files
    else:
        cands = py_files
    for mode in ("edit", "delete"):
        target = rng.choice(cands or py_files)
        p = root0 / target
        original = p.read_bytes()
        if mode == "edit":
            p.write_bytes(original + b"\n# tampered\nX_TAMPERED = 1\n")
        else:
            p.unlink()
        n0 = len(_contract["bad"])
        rt = genrun.generate(d.doc, root0, pkg, core, force=False, spec_path=spec)
        rec.count(f"tamper_{mode}_checks")
        where = "core" if "/core/" in "/" + target else target.split("/")[-2] if "/" in target else "root"
        rec.case(dict(case, variant=f"tamper {mode} {target}"), nontrivial=True)
        f2 = feats + [f"tamper_{mode}"]
        if rt.ok:
            rec.violation(f"rerun:tampered_tree_reported_up_to_date:{mode}", f2, dict(case, variant=f"{mode}:{target}"),
                          f"{target} was {'edited' if mode == 'edit' else 'deleted'}; non-force run returned success")
        for b in _contract["bad"][n0:]:
            rec.violation(f"contract:show_diffs_verdict_wrong:{mode}", f2, dict(case, variant=f"{mode}:{target}"), b)
        p.parent.mkdir(parents=True, exist_ok=True)
        p.write_bytes(original)
    rec.counters["show_diffs_contract_evals"] = _contract["evals"]
    if len(rec.samples) < 2:
        rec.sample({"layout": list(layout), "hash_seeds": seeds, "files": len(base), "sample_digest": dict(list(base.items())[:3])})


LAYOUTS = [("client1", None), ("acme.client1", None), ("acme.client1", "acme.core"), ("client1", "client1.core"), ("acme.apis.client1", "acme.shared.core"),
           # a sibling core whose directory name has the client's directory name as a string prefix
           ("client1", "client1_core"), ("acme.shop", "acme.shop_core")]


# layouts of the post-processed scenario: import sorting looks at package structure, so the core lives under ANOTHER top-level
# package, under the same one, inside the client, and beside a one-level client
PP_LAYOUTS = [("acme.apis.client1", "corepkg.rt.core"), ("acme.client1", "acme.core"), ("acme.apis.client1", None), ("client1", "sharedcore")]
LAYOUTS.append(PP_LAYOUTS[0])


def mk_doc(ctx: Ctx) -> specgen.Doc:
    if ctx.rng.random() < 0.15:
        # discriminated unions whose variants pin the discriminator with an inline one-value enum (the models step treats
        # those enums specially: both generation paths must agree on them)
        from . import c14
        vs = ctx.rng.sample(list(c14.DISC), ctx.rng.randint(2, 3))
        d = specgen.Doc(c14.build_doc([{"name": "Du1", "variants": vs, "kw": "oneOf", "disc": True},
                                       {"name": "Du2", "variants": list(reversed(vs)), "kw": "oneOf", "disc": True, "nullable": True}]),
                        {}, [], {"discriminated_union_document"})
        return d
    if ctx.rng.random() < 0.25:
        # schema-centred document: many promoted inline schemas, nested containers, named maps / aliases (import and
        # declaration order of those is where set / dict iteration order could leak)
        d = richgen.generate(ctx.rng, allow={"anonymous_array_items", "free_form_empty_schema"})
        d.features = set(d.features) | {"rich_document"}
        return d
    d = specgen.generate(ctx.rng, prof={"ops": (3, 7), "schemas": (4, 8), "p_stream": 0.3, "stream_kinds": ["sse", "binary", "ndjson"],
                                        "opid_shapes": True, "p_dup_opid": 0.2, "p_param": 0.8})
    # several undeclared path variables in one path: order must not depend on set iteration
    if ctx.rng.random() < 0.5:
        d.doc["paths"]["/op99/{alpha}/{beta}/x/{gamma}/{delta}"] = {"get": {"operationId": "getMany99", "responses": {"200": {"description": "ok"}}}}
        d.features.add("undeclared_path_variables")
    return d


def run_postprocessed(ctx: Ctx, d: specgen.Doc, n: int, layout: tuple[str, str | None]) -> None:
    """The same claims through the real command line with post-processing ON (the default: ruff rewrites every emitted
    file in child processes): two forced generations under different hash seeds, from different working directories, into
    different roots must agree byte for byte, and a re-run without --force must be a no-op from either working directory."""
    from . import c10

    rec = ctx.rec
    pkg, core = layout
    tops = sorted({pkg.split(".")[0]} | ({core.split(".")[0]} if core else set()))
    feats = sorted(d.features) + ["postprocess_on"]
    case = {"doc": d.doc, "layout": list(layout), "scenario": "postprocess_cli"}
    work = ctx.scratch.new("c09pp")
    spec = genrun.write_spec(d.doc, work / "spec")
    ra, rb, neutral = work / "a" / "proj", work / "b" / "proj", work / "neutral"
    for x in (ra, rb, neutral):
        x.mkdir(parents=True)

    def cli(root: Path, cwd: Path, force: bool, hashseed: str):
        env = c10.cli_env(ctx)
        env["PYTHONHASHSEED"] = hashseed
        root_arg = "." if cwd == root else str(root)
        try:
            r = subprocess.run(c10.cli_cmd(spec, root_arg, pkg, core, force), cwd=str(cwd), env=env, capture_output=True, text=True, timeout=900)
        except subprocess.TimeoutExpired:
            return None
        rec.count("postprocess_cli_runs")
        return r

    r1 = cli(ra, neutral, True, "1")
    r2 = cli(rb, rb, True, "2")
    if r1 is None or r2 is None or r1.returncode != 0 or r2.returncode != 0:
        rec.count("postprocess_generations_rejected")
        return
    rec.case(dict(case, variant="two forced generations"), nontrivial=True)
    rec.count("tree_pairs_compared")
    ta, tb = digest(ra, tops), digest(rb, tops)
    dd = diff_trees(ta, tb)
    if dd:
        rec.violation(f"determinism:postprocess:{classify_changed(dd)}", feats, dict(case, variant="hash seed / cwd / root"), dd)
    for root, cwd, label in ((ra, neutral, "cwd_elsewhere"), (rb, rb, "cwd_is_project_root"), (ra, ra, "cwd_is_project_root_after_elsewhere")):
        before = digest(root, tops, with_mtime=True)
        r = cli(root, cwd, False, "3")
        rec.count("noop_reruns_postprocessed")
        rec.case(dict(case, variant=f"non-force re-run {label}"), nontrivial=True)
        if r is None:
            continue
        if r.returncode != 0:
            rec.violation(f"rerun:postprocess:up_to_date_output_reported_as_different:{label}", feats, dict(case, variant=label), r.stderr[-300:])
        elif digest(root, tops, with_mtime=True) != before:
            rec.violation(f"rerun:postprocess:files_touched:{label}", feats, dict(case, variant=label), "")


def run_shared_core_reruns(ctx: Ctx) -> None:
    """Two clients with different declared error sets share one core. Each was generated from its own unchanged document, so
    a re-run without force over either of them must report no differences and touch nothing."""
    from . import c11

    rec = ctx.rec
    layouts = [("acme.alpha", "acme.beta", "acme.core"), ("alpha", "beta", "sharedcore"), ("acme.apis.alpha", "other.beta", "acme.shared.core")]
    pairs = [("d404", "d422_500"), ("d404_409_503", "dnone"), ("dnone", "d404"), ("d404", "d404")]
    k = 0
    for la in layouts:
        for pa in pairs:
            k += 1
            if not ctx.mine(k):
                continue
            pkg_a, pkg_b, core = la
            root = ctx.scratch.new("sharedcore")
            docs = {pkg_a: c11.make_doc(pa[0]), pkg_b: c11.make_doc(pa[1])}
            specs = {p: genrun.write_spec(d, root.parent / f"spec-{root.name}-{p.replace('.', '_')}") for p, d in docs.items()}
            ok = all(genrun.generate(docs[p], root, p, core, force=True, spec_path=specs[p]).ok for p in (pkg_a, pkg_b))
            if not ok:
                rec.count("generations_rejected")
                continue
            tops = sorted({x.split(".")[0] for x in (pkg_a, pkg_b, core)})
            for p in (pkg_a, pkg_b):
                case = {"scenario": "shared_core_rerun", "layout": list(la), "error_sets": list(pa), "rerun_of": p}
                before = digest(root, tops, with_mtime=True)
                r = genrun.generate(docs[p], root, p, core, force=False, spec_path=specs[p])
                rec.count("noop_reruns_in_shared_core")
                rec.case(case, nontrivial=True)
                feats = ["two_clients_share_one_core"] + (["different_error_sets"] if pa[0] != pa[1] else [])
                if not r.ok:
                    rec.violation("rerun:shared_core:up_to_date_output_reported_as_different", feats, case, (r.error or "")[:200])
                elif digest(root, tops, with_mtime=True) != before:
                    rec.violation("rerun:shared_core:files_touched", feats, case, "")


def run_shard(ctx: Ctx) -> None:
    install_contract()
    run_shared_core_reruns(ctx)
    total = 2 if ctx.quick else 40
    for b in range(total):
        run_doc(ctx, mk_doc(ctx), ctx.shard * 1000 + b, LAYOUTS[(ctx.shard + b) % len(LAYOUTS)])
    # post-processing ON through the command line: a quarter of the shards in the quick tier, every shard in the thorough one
    if not ctx.quick or ctx.shard % 4 == 1:
        for b in range(1 if ctx.quick else 4):
            run_postprocessed(ctx, mk_doc(ctx), ctx.shard * 1000 + 900 + b, PP_LAYOUTS[(ctx.shard // 4 + b) % len(PP_LAYOUTS)])


def replay(ctx: Ctx, file: dict) -> None:
    install_contract()
    c = file["case"]
    d = specgen.Doc(c.get("doc") or {}, {}, [], set())
    if c.get("scenario") == "shared_core_rerun":
        ctx.shard, ctx.nshards = 0, 1
        run_shared_core_reruns(ctx)
        return
    if c.get("scenario") == "postprocess_cli":
        run_postprocessed(ctx, d, 1, (c["layout"][0], c["layout"][1]))
        return
    run_doc(ctx, d, 1, (c["layout"][0], c["layout"][1]))
