"""C20 (namespace level) — distinct spec names placed in one namespace surface as distinct identifiers, none dropped or merged.

Pairs of distinct names (all ordered pairs of strings of length <= 2 over the C20 alphabet are the pool; pairs that collide
under the real derivation functions are over-sampled — repository code is used only to CHOOSE inputs, never to judge) are
packed many-to-a-document into five namespace kinds, generated for real and read back by introspection / wire capture in a
fresh interpreter:
  properties of one schema   -> Meta wire keys {a, b} both present, mapped to two distinct fields of the right types
  parameters of one operation-> two distinct arguments; positional call puts both values on the wire under a and b
  schemas                    -> two model classes, each with its own marker property
  members of one enum        -> two members carrying exactly the values a and b
  operations of one client   -> two methods, each reaching its own operation
"""
from __future__ import annotations

import itertools
import json
import keyword

from .. import common, genrun
from ..common import Ctx

ALPHABET = ["a", "s", "i", "B", "1", "_", "-", " ", ".", "$", "/", "{", "é", "日"]


def pool() -> list[str]:
    out = []
    for n in (1, 2):
        out += ["".join(t) for t in itertools.product(ALPHABET, repeat=n)]
    return sorted(set(out + ["class", "Class", "from", "userId", "user_id", "userID", "UserId", "user-id", "date", "field", "id", "Id", "type", "aB", "a_b", "a b", "a-b", "ab",
                             "Date", "date_", "Field", "field-", "dataclass", "Dataclass", "data-class"]))


def choose_pairs(ctx: Ctx, kind: str, n: int) -> list[tuple[str, str]]:
    """Half of the pairs collide under the real derivation function for that namespace (input selection only)."""
    from pyopenapi_gen.core.utils import NameSanitizer as NS

    fn = {"properties": NS.sanitize_method_name, "parameters": NS.sanitize_method_name, "schemas": NS.sanitize_class_name,
          "enum_members": lambda s: s.upper(), "operations": NS.sanitize_method_name}[kind]
    strings = pool()
    if kind in ("parameters", "operations"):
        strings = [s for s in strings if s.strip() and "{" not in s and "/" not in s]
    if kind == "schemas":
        strings = [s for s in strings if s.strip() and "/" not in s and "~" not in s]
    groups: dict[str, list[str]] = {}
    for s in strings:
        try:
            groups.setdefault(fn(s), []).append(s)
        except Exception:
            pass
    colliding = [(a, b) for g in groups.values() if len(g) > 1 for a, b in itertools.permutations(g, 2) if a != b]
    rng = ctx.rng
    rng.shuffle(colliding)
    # pairs around names with special treatment (keywords, names shadowing imports of the model module) always take part
    special = [(a, b) for a, b in colliding if {a.lower().strip("_-"), b.lower().strip("_-")} & {"date", "field", "dataclass", "class", "id", "type", "from"}]
    pairs = special[: n // 4] + [p for p in colliding if p not in special][: n // 2 - min(len(special), n // 4)]
    while len(pairs) < n:
        a, b = rng.sample(strings, 2)
        pairs.append((a, b))
    # long names that agree in their first 100+ characters (a derivation that truncates would merge them)
    stem = "accountsReceivableReconciliationAndSettlementReportingServiceForTheEuropeanRegionIncludingAllSubsidiariesAndBranches"
    pairs[-2:] = [(stem + "Alpha", stem + "Beta"), (stem + "_x", stem + "_y")]
    if kind == "properties":
        pairs[-4:-2] = [("", "a"), ("unnamed", "")]     # the empty string is a legal JSON key
    return pairs


def third_property(a: str, b: str) -> str | None:
    """The spelling a de-collided field name would have (input selection only)."""
    from pyopenapi_gen.core.utils import NameSanitizer as NS

    try:
        c = NS.sanitize_method_name(b) + "_2"
    except Exception:
        return None
    return c if c not in (a, b) and c != "_2" else None


def ident_ok(s: str) -> bool:
    return isinstance(s, str) and s.isidentifier() and not keyword.iskeyword(s)


def pair_features(a: str, b: str) -> list[str]:
    f = []
    na = "".join(ch for ch in a.lower() if ch.isalnum())
    nb = "".join(ch for ch in b.lower() if ch.isalnum())
    if na == nb:
        f.append("names_equal_after_alnum_casefold")
    # member / identifier derivation keeps ASCII letters and digits only: a name made of symbols and non-ASCII letters
    # ('é-', '-日') derives to the same bare '_' as a symbol-only one
    if not any(ch.isascii() and ch.isalnum() for ch in a) or not any(ch.isascii() and ch.isalnum() for ch in b):
        f.append("name_without_alphanumerics")
    if any(ord(ch) > 127 for ch in a + b):
        f.append("non_ascii_name")
    if a == "" or b == "":
        f.append("empty_string_name")
    if f:
        f.append("collision_prone_names")
    import re
    # input class of F-C20-class-name-derivation-not-idempotent: joining the capitalised words of the name yields a run of
    # two or more upper-case letters ('sB' -> S+B, 'a_b' -> A+B), which a second derivation pass folds to 'Sb' / 'Ab'
    for x in (a, b):
        words = re.findall(r"[A-Z]+(?=[A-Z][a-z])|[A-Z]?[a-z]+|[A-Z]+|[0-9]+", x)
        pascal = "".join(w.capitalize() for w in words)
        if re.search(r"[A-Z]{2}", pascal) or re.search(r"[0-9][A-Z]", pascal) and False:
            f.append("camel_hump_before_nonlower")
            break
    return f


def run_namespace_level(ctx: Ctx) -> None:
    npairs = 30 if ctx.quick else 400
    kinds = ["properties", "parameters", "schemas", "enum_members", "operations"]
    kind = kinds[ctx.shard % len(kinds)]
    run_pairs(ctx, kind, choose_pairs(ctx, kind, npairs), f"ns{ctx.shard}")


def run_pairs(ctx: Ctx, kind: str, pairs: list[tuple[str, str]], pkg: str) -> None:
    rec = ctx.rec
    root = ctx.scratch.new("ns")
    schemas: dict = {"Anchor": {"type": "object", "properties": {"x": {"type": "string"}}}}
    paths: dict = {"/op0/anchor": {"get": {"operationId": "getAnchor", "tags": ["anchor"], "responses": {"200": {"description": "ok"}}}}}
    for k, (a, b) in enumerate(pairs):
        if kind == "properties":
            schemas[f"NsHolder{k}"] = {"type": "object", "required": [a], "properties": {a: {"type": "string"}, b: {"type": "integer"}}}
            c = third_property(a, b)
            if c:
                # plus a third property spelled like the name a de-collided field would get (addressLine / address_line / address_line_2)
                schemas[f"NsHolder{k}"]["properties"][c] = {"type": "boolean"}
        elif kind == "enum_members":
            # plus a third value spelled like the name a de-duplicated member would get (ok / OK / ok_1)
            schemas[f"NsEnum{k}"] = {"type": "string", "enum": [a, b] + ([f"{a}_1"] if f"{a}_1" not in (a, b) else [])}
        elif kind == "parameters":
            paths[f"/op{k + 1}/p"] = {"get": {"operationId": f"getP{k + 1}", "tags": ["params"], "parameters": [
                {"name": a, "in": "query", "required": True, "schema": {"type": "string"}},
                {"name": b, "in": "query", "required": True, "schema": {"type": "integer"}}], "responses": {"200": {"description": "ok"}}}}
        elif kind == "operations":
            paths[f"/op{2 * k + 1}/o"] = {"get": {"operationId": a, "tags": [f"grp{k}"], "responses": {"200": {"description": "ok"}}}}
            paths[f"/op{2 * k + 2}/o"] = {"get": {"operationId": b, "tags": [f"grp{k}"], "responses": {"200": {"description": "ok"}}}}
    docs = []
    if kind in ("parameters", "operations"):
        # one small document per pair: a broken method must not take the other pairs' modules down with it
        for k, (a, b) in enumerate(pairs):
            pp = {"/op0/anchor": paths["/op0/anchor"]}
            if kind == "parameters":
                pp["/op1/p"] = {"get": {"operationId": "getP1", "tags": ["params"], "parameters": [
                    {"name": a, "in": "query", "required": True, "schema": {"type": "string"}},
                    {"name": b, "in": "query", "required": True, "schema": {"type": "integer"}}], "responses": {"200": {"description": "ok"}}}}
            else:
                pp["/op1/o"] = {"get": {"operationId": a, "tags": ["grp0"], "responses": {"200": {"description": "ok"}}}}
                pp["/op2/o"] = {"get": {"operationId": b, "tags": ["grp0"], "responses": {"200": {"description": "ok"}}}}
            docs.append((f"{pkg}_{k}", {"openapi": "3.0.3", "info": {"title": "N", "version": "1"}, "paths": pp,
                                        "components": {"schemas": {"Anchor": schemas["Anchor"]}}}, [(a, b)], 0))
    elif kind == "schemas":
        # one document per pair (schema names are global to a document; a rejection must be attributable to its pair)
        for g in range(0, len(pairs), 1):
            sc = dict(schemas)
            for k, (a, b) in enumerate(pairs[g:g + 1]):
                if a in sc or b in sc or any(x in (a, b) for x in ()):
                    continue
                sc[a] = {"type": "object", "properties": {f"markerA{g + k}": {"type": "string"}}}
                sc[b] = {"type": "object", "properties": {f"markerB{g + k}": {"type": "integer"}}}
            docs.append((f"{pkg}_{g}", {"openapi": "3.0.3", "info": {"title": "N", "version": "1"}, "paths": paths, "components": {"schemas": sc}}, pairs[g:g + 1], g))
    else:
        docs.append((pkg, {"openapi": "3.0.3", "info": {"title": "N", "version": "1"}, "paths": paths, "components": {"schemas": schemas}}, pairs, 0))
    for dpkg, doc, dpairs, offset in docs:
        res = genrun.generate(doc, root, dpkg, None, spec_path=genrun.write_spec(doc, root / f"spec-{dpkg}"))
        base_case = {"namespace": kind}
        if not res.ok:
            rec.count("ns_generations_rejected")
            rec.seen("ns_rejections", f"{kind}: {(res.error or '')[:100]}")
            # "If an operation cannot be represented, generation fails visibly": a visible failure is not a silent merge,
            # but totality of name derivation is the property: record it against the pairs of this document
            for a, b in dpairs:
                rec.case({"ns": kind, "pair": [a, b]}, nontrivial=True)
                rec.violation(f"ns:{kind}:generation_rejected", pair_features(a, b), dict(base_case, pair=[a, b], doc=doc if len(dpairs) <= 8 else None),
                              (res.error or "")[:200])
            continue
        job = {"root": str(root), "packages": [{"pkg": dpkg, "core": dpkg + ".core"}]}
        if kind in ("properties", "enum_members", "schemas"):
            job["actions"] = ["models"]
        elif kind == "operations":
            job["actions"] = ["discover", "surface"]
        else:
            job["actions"] = ["positional_calls"]
            job["positional_calls"] = [{"id": str(k), "seg": f"op{k + 1}", "http": "GET", "values": ["va", 7]} for k in range(len(dpairs))]
        out = genrun.run_probe(job, root / f"probe-{dpkg}")
        if "probe_error" in out:
            rec.violation(f"ns:{kind}:probe_crash", [], base_case, out["probe_error"][-300:])
            continue
        po = out["packages"][dpkg]
        for k, (a, b) in enumerate(dpairs):
            feats = pair_features(a, b)
            case = dict(base_case, pair=[a, b])
            rec.case({"ns": kind, "pair": [a, b]}, nontrivial=not (ident_ok(a) and ident_ok(b) and a == a.lower() and b == b.lower()))
            rec.count(f"ns_pairs_{kind}")
            if kind == "properties":
                entries = [e for e in po["models"]["models"].get(f"NsHolder{k}", []) if e["kind"] == "dataclass"]
                if len(entries) != 1:
                    errs = [e for e in po["models"]["errors"] if f"ns_holder_{k}." in e["module"] + "."]
                    rec.violation("ns:properties:model_missing_or_unimportable", feats, case, json.dumps(errs[:1])[:300])
                    continue
                m = entries[0]
                load = m["load"] or {}
                c = third_property(a, b)
                declared = {a, b} | ({c} if c else set())
                if set(load) != declared:
                    rec.violation("ns:properties:wire_keys_dropped_or_merged", feats, case, f"load map keys {sorted(load)} for declared {sorted(declared)}")
                    continue
                fa, fb = load[a], load[b]
                fields = {f["name"]: f for f in m["fields"]}
                if fa == fb or fa not in fields or fb not in fields:
                    rec.violation("ns:properties:not_two_distinct_fields", feats, case, f"{a!r}->{fa!r}, {b!r}->{fb!r}; fields {sorted(fields)}")
                    continue
                if c:
                    rec.count("ns_property_triples_with_suffix_spelling")
                    fc = load[c]
                    if fc in (fa, fb) or fc not in fields or len(fields) != 3 or "bool" not in fields[fc]["kind"]:
                        rec.violation("ns:properties:suffix_spelled_property_merged", feats, case,
                                      f"{a!r}->{fa!r}, {b!r}->{fb!r}, {c!r}->{fc!r}; fields {[(n, f['kind']) for n, f in sorted(fields.items())]}")
                        continue
                for nm in (fa, fb):
                    if not ident_ok(nm):
                        rec.violation("ns:properties:invalid_identifier", feats, case, nm)
                if "str" not in fields[fa]["kind"] or "int" not in fields[fb]["kind"]:
                    rec.violation("ns:properties:fields_swapped_or_mistyped", feats, case, f"{fa}:{fields[fa]['kind']} {fb}:{fields[fb]['kind']}")
                if (m["dump"] or {}).get(fa) != a or (m["dump"] or {}).get(fb) != b:
                    rec.violation("ns:properties:dump_map_not_original_names", feats, case, json.dumps(m["dump"])[:200])
            elif kind == "enum_members":
                entries = [e for e in po["models"]["models"].get(f"NsEnum{k}", []) if e["kind"] == "enum"]
                if len(entries) != 1:
                    errs = [e for e in po["models"]["errors"] if f"ns_enum_{k}." in e["module"] + "."]
                    rec.violation("ns:enum_members:enum_missing_or_unimportable", feats, case, json.dumps(errs[:1])[:300])
                    continue
                members = entries[0]["members"]
                vals = sorted(v for _, v in members)
                if vals != sorted(schemas[f"NsEnum{k}"]["enum"]):
                    rec.violation("ns:enum_members:values_dropped_or_altered", feats, case, f"{members}")
                for nm, _ in members:
                    if not ident_ok(nm):
                        rec.violation("ns:enum_members:invalid_identifier", feats, case, nm)
            elif kind == "schemas":
                found = {"A": [], "B": []}
                for cname, entries in po["models"]["models"].items():
                    for e in entries:
                        if e["kind"] == "dataclass":
                            keys = set((e.get("load") or {}).keys())
                            if f"markerA{offset + k}" in keys:
                                found["A"].append(cname)
                            if f"markerB{offset + k}" in keys:
                                found["B"].append(cname)
                if a not in doc["components"]["schemas"] or b not in doc["components"]["schemas"]:
                    continue
                if len(found["A"]) != 1 or len(found["B"]) != 1 or found["A"] == found["B"]:
                    rec.violation("ns:schemas:model_dropped_or_merged", feats, case,
                                  f"classes with markerA: {found['A']}, with markerB: {found['B']}; import errors: {json.dumps(po['models']['errors'][:1])[:200]}")
                else:
                    for nm in found["A"] + found["B"]:
                        if not ident_ok(nm):
                            rec.violation("ns:schemas:invalid_identifier", feats, case, nm)
            elif kind == "operations":
                hits: dict[str, list[str]] = {}
                for mth in po["discover"]["methods"]:
                    for q in mth["requests"]:
                        seg = [x for x in q[1].split("/") if x][0]
                        hits.setdefault(seg, []).append(mth["method"])
                ha, hb = hits.get(f"op{2 * k + 1}", []), hits.get(f"op{2 * k + 2}", [])
                if len(ha) != 1 or len(hb) != 1 or ha == hb:
                    rec.violation("ns:operations:operation_dropped_or_merged", feats, case, f"{a!r} -> {ha}, {b!r} -> {hb}; errors {po['discover']['errors'][:1]}")
                else:
                    for nm in ha + hb:
                        if not ident_ok(nm):
                            rec.violation("ns:operations:invalid_identifier", feats, case, nm)
            else:  # parameters
                r = po["positional_calls"]["results"].get(str(k))
                if r is None or "error" in r:
                    rec.violation("ns:parameters:operation_not_callable", feats, case, json.dumps(po["positional_calls"].get("errors", [])[:1])[:300])
                    continue
                params = [x["name"] for x in r["sig"].get("params", []) if x["name"] != "self"]
                if len(params) != 2 or params[0] == params[1]:
                    rec.violation("ns:parameters:not_two_distinct_arguments", feats, case, f"{params}")
                    continue
                for nm in params:
                    if not ident_ok(nm):
                        rec.violation("ns:parameters:invalid_identifier", feats, case, nm)
                if not r["requests"]:
                    rec.violation("ns:parameters:call_failed", feats, case, json.dumps(r.get("exc"))[:200])
                    continue
                q = dict((x, y) for x, y in r["requests"][0]["query"])
                if q != {a: "va", b: "7"}:
                    rec.violation("ns:parameters:wire_names_dropped_or_merged", feats, case, f"query {q} for declared {[a, b]}")
    rec.seen("namespace_kinds", kind)


def replay(ctx: Ctx, file: dict) -> None:
    c = file["case"]
    run_pairs(ctx, c["namespace"], [tuple(c["pair"])], "nsreplay")
