"""C14 — union values are decoded as the right variant, never lossily.

Workload: unions of 2..4 variants from a pool of shapes (objects with disjoint / overlapping / subset-required /
all-optional fields, primitives, lists, maps), in every variant order, with and without discriminator + mapping; exercised
as generated alias, as field and as list item, through the emitted package's own converter in a fresh interpreter.
Payloads: per variant the minimal and the maximal conforming document.  Oracle: decode then re-encode gives back the
payload (no key silently discarded); with a discriminator the instance is of the mapped class, an unmapped value is an
error, and a mapped variant that fails to decode is reported, not retried as another variant.
"""
from __future__ import annotations

import itertools
import json

from .. import common, genrun, refmodel
from ..common import Ctx

LEVEL = "exploration"
SHARDS = {"quick": 16, "thorough": 16}
FLOOR = {"quick": 1500, "thorough": 20000}
REQUIRED_COUNTERS = ["roundtrips", "unions", "discriminated_unions", "payload_minimal", "payload_maximal", "as_alias", "as_field",
                     "as_list_item", "as_named_array_field", "unmapped_discriminator_checks", "broken_mapped_variant_checks", "cases_earlier_variant_accepts"]
RULE = ("unions of 2-4 variants over a pool of 10 shapes in every order (quick: all ordered pairs + sampled triples; thorough: all up to 4), "
        "with/without discriminator+mapping, as alias / field / list item x minimal and maximal payload of each variant; case = (union, "
        "position, payload); non-trivial = union has >=2 dict-accepting variants or a discriminator")
ASSUMPTIONS = ["known finding is keyed by a predicate on the (union, payload) pair: an EARLIER variant's required keys are contained in the "
               "payload of a LATER variant; all other pairs are judged with no suppression"]

R = lambda n: {"$ref": f"#/components/schemas/{n}"}  # noqa

# name -> (schema, required keys, minimal payload, maximal payload); None schema => inline primitive
POOL = {
    "VarA": ({"type": "object", "required": ["a"], "properties": {"a": {"type": "string"}}}, {"a"}, {"a": "x"}, {"a": "x"}),
    "VarB": ({"type": "object", "required": ["a", "b"], "properties": {"a": {"type": "string"}, "b": {"type": "integer"}, "note": {"type": "string"}}},
             {"a", "b"}, {"a": "x", "b": 2}, {"a": "x", "b": 2, "note": "n"}),
    "VarC": ({"type": "object", "required": ["c"], "properties": {"c": {"type": "integer"}, "tags": {"type": "array", "items": {"type": "string"}}}},
             {"c"}, {"c": 7}, {"c": 7, "tags": ["t1", "t2"]}),
    "VarD": ({"type": "object", "properties": {"a": {"type": "string"}, "d": {"type": "boolean"}}}, set(), {"d": True}, {"a": "y", "d": False}),
    "VarE": ({"type": "object", "required": ["x"], "properties": {"x": {"type": "number"}, "a": {"type": "string"}}}, {"x"}, {"x": 1.5}, {"x": 1.5, "a": "z"}),
    "VarF": ({"type": "object", "required": ["itemCount"], "properties": {"itemCount": {"type": "integer"}, "display-name": {"type": "string"}}},
             {"itemCount"}, {"itemCount": 3}, {"itemCount": 3, "display-name": "dn"}),
    # required properties that all carry a default: 'required' still means the key must be present in a conforming payload
    "VarG": ({"type": "object", "required": ["transport"], "properties": {"transport": {"type": "string", "default": "smtp"}, "to": {"type": "string"}}},
             {"transport"}, {"transport": "smtp"}, {"transport": "relay", "to": "a@b"}),
    "str": ({"type": "string"}, None, "plain", "plain text"),
    "int": ({"type": "integer"}, None, 5, 12345),
    "strlist": ({"type": "array", "items": {"type": "string"}}, None, [], ["p", "q"]),
}
OBJ = [k for k, v in POOL.items() if v[1] is not None]

def _dv(value: str, extra: str, name_required: bool = True, enum: bool = True, more: tuple = ()) -> tuple:
    kind = {"type": "string", "enum": [value, *more]} if enum else {"type": "string"}
    sch = {"type": "object", "required": ["kind", "name"] if name_required else ["kind"],
           "properties": {"kind": kind, "name": {"type": "string"}, extra: {"type": "integer"}}}
    lo = {"kind": value, "name": "Tom"} if name_required else {"kind": value}
    return (sch, value, lo, {"kind": value, "name": "Rex", extra: 9}, tuple(more))


# discriminated variants: name -> (schema, discriminator value, minimal payload, maximal payload, further mapped values)
DISC = {
    "Cat": _dv("cat", "lives"), "Dog": _dv("dog", "barkVolume"), "Eel": _dv("eel", "volts", name_required=False),
    # declared names that class-name / module-name derivation rewrites (digit group, acronym run, snake_case)
    "CatV2": _dv("cat", "lives"), "HTTPDog": _dv("dog", "barkVolume"), "eel_fish": _dv("eel", "volts", name_required=False),
    # several discriminator values mapped to one schema ("dog" and "puppy" are both Dogs); the property is a plain string ...
    "CatS": _dv("cat", "lives", enum=False, more=("kitten",)), "DogS": _dv("dog", "barkVolume", enum=False, more=("puppy", "hound")),
    # ... or an enum listing all of its values
    "CatE": _dv("cat", "lives", more=("kitten",)), "DogE": _dv("dog", "barkVolume", more=("puppy",)),
}
# ... or every variant takes its discriminator property from ONE shared enum schema ($ref PetKind)
for _n, _v, _x, _req in (("CatR", "cat", "lives", True), ("DogR", "dog", "barkVolume", True), ("EelR", "eel", "volts", False)):
    _t = _dv(_v, _x, name_required=_req)
    _t[0]["properties"]["kind"] = {"$ref": "#/components/schemas/PetKind"}
    DISC[_n] = _t
# ... or the discriminator values differ only in letter case / punctuation (credit_card vs credit-card, SMS vs sms): distinct
# values, however their member names are derived
DISC["PayU"] = _dv("credit_card", "limit")
DISC["PayH"] = _dv("credit-card", "fee")
DISC["PayC"] = _dv("CREDIT CARD", "rate", name_required=False)
DISC["MsgU"] = _dv("SMS", "segments", enum=False)
DISC["MsgL"] = _dv("sms", "parts", enum=False)
# (KindFilter: a schema OUTSIDE every union that refers to the shared enum as well - it must survive the unification)
SHARED = {"PetKind": {"type": "string", "enum": ["cat", "dog", "eel"]},
          "KindFilter": {"type": "object", "properties": {"only": {"$ref": "#/components/schemas/PetKind"}, "limit": {"type": "integer"}}}}
FAMILIES = {"values_equal_after_folding": ["PayU", "PayH", "PayC"], "values_differ_in_case_only": ["MsgU", "MsgL", "Eel"],
            "shared_enum_schema": ["CatR", "DogR", "EelR"], "plain": ["Cat", "Dog", "Eel"], "rewritten": ["CatV2", "HTTPDog", "eel_fish"], "several_values_plain_string": ["CatS", "DogS", "Eel"],
            "several_values_enum": ["CatE", "DogE", "Eel"]}


def norm(s: str) -> str:
    return "".join(ch for ch in (s or "").lower() if ch.isascii() and ch.isalnum())


def accepts(variant: str, payload) -> bool:
    """Would first-match over dataclasses that ignore unknown keys accept this payload as `variant`? (harness-side model)"""
    sch, req, _, _ = POOL[variant]
    if req is None:
        return False
    return isinstance(payload, dict) and req <= set(payload)


def build_doc(unions: list[dict]) -> dict:
    schemas = {k: v[0] for k, v in POOL.items() if v[1] is not None}
    schemas.update({k: v[0] for k, v in DISC.items()})
    schemas.update(SHARED)
    for u in unions:
        members = []
        for v in u["variants"]:
            members.append(R(v) if (v in DISC or POOL[v][1] is not None) else POOL[v][0])
        node = {u["kw"]: members}
        if u.get("disc"):
            order = list(u["variants"])
            if u.get("mapping_order") == "reversed":
                order.reverse()
            elif u.get("mapping_order") == "sorted":
                order.sort(key=lambda v: DISC[v][1])
            node["discriminator"] = {"propertyName": "kind", "mapping": {val: f"#/components/schemas/{v}" for v in order
                                                                         for val in (DISC[v][1], *DISC[v][4])}}
        if u.get("nullable"):
            node["nullable"] = True     # "one of these, or null": the union schema itself is nullable
        schemas[u["name"]] = node
        schemas["ListOf" + u["name"]] = {"type": "array", "items": R(u["name"])}
        schemas["Holder" + u["name"]] = {"type": "object", "properties": {"val": R(u["name"]), "vals": {"type": "array", "items": R(u["name"])},
                                                                          "named": R("ListOf" + u["name"]), "label": {"type": "string"}}}
    paths = {"/op1/x": {"get": {"operationId": "getX", "responses": {"200": {"description": "ok", "content": {"application/json": {
        "schema": R("Holder" + unions[0]["name"])}}}}}}}
    return {"openapi": "3.0.3", "info": {"title": "U", "version": "1"}, "paths": paths, "components": {"schemas": schemas}}


def all_unions(ctx: Ctx) -> list[dict]:
    us = []
    n = 0
    names = list(POOL)
    for a, b in itertools.permutations(names, 2):
        if POOL[a][1] is None and POOL[b][1] is None:
            continue
        n += 1
        us.append({"name": f"Un{n}", "variants": [a, b], "kw": "oneOf" if n % 2 else "anyOf"})
    triples = [t for t in itertools.permutations(names, 3) if sum(POOL[x][1] is not None for x in t) >= 2]
    quads = [t for t in itertools.permutations(OBJ, 4)]
    if ctx.quick:
        triples = ctx.rng.sample(triples, 90)
        quads = ctx.rng.sample(quads, 20)
    for t in triples + quads:
        n += 1
        us.append({"name": f"Un{n}", "variants": list(t), "kw": "oneOf" if n % 2 else "anyOf"})
    for fam, members in FAMILIES.items():
      for k in (2, 3):
        for t in itertools.permutations(members, k):
            if fam != "plain" and k == 3 and t[0] > t[1]:
                continue      # the extra families: every pair in both orders, triples in half of the orders
            n += 1
            us.append({"name": f"Du{n}", "variants": list(t), "kw": "oneOf", "disc": True, "family": fam})
            for mo in ("reversed", "sorted"):   # the mapping may list the variants in another order than oneOf does
                n += 1
                us.append({"name": f"Du{n}", "variants": list(t), "kw": "oneOf", "disc": True, "mapping_order": mo, "family": fam})
            n += 1
            us.append({"name": f"Du{n}", "variants": list(t), "kw": "oneOf", "disc": True, "nullable": True, "family": fam})
    return us


def run_doc(ctx: Ctx, unions: list[dict], n: int, only=None) -> None:
    rec = ctx.rec
    root = ctx.scratch.new("proj")
    pkg = f"c{n}"
    doc = build_doc(unions)
    res = genrun.generate(doc, root, pkg, None, spec_path=genrun.write_spec(doc, root / f"spec{n}"))
    if not res.ok:
        rec.count("generations_rejected")
        rec.seen("rejections", (res.error or "")[:120])
        return
    rts, meta = [], {}
    for u in unions:
        rec.count("unions")
        if u.get("disc"):
            rec.count("discriminated_unions")
            rec.count(f"discriminated_unions_{u.get('family', 'plain')}")
        for vi, v in enumerate(u["variants"]):
            lo, hi = (DISC[v][2], DISC[v][3]) if v in DISC else (POOL[v][2], POOL[v][3])
            plist = [("minimal", lo), ("maximal", hi)]
            if v in DISC:
                # every further discriminator value mapped to this schema is as good a selector as the first one
                plist += [(f"value_{val}", dict(hi, kind=val)) for val in DISC[v][4]]
                rec.count("payloads_with_further_mapped_value", len(DISC[v][4]))
            for pk, payload in plist:
                for pos in ("as_alias", "as_field", "as_list_item", "as_named_array_field"):
                    rid = f"{u['name']}-{vi}-{pk}-{pos}"
                    if pos == "as_alias":
                        rts.append({"id": rid, "model": u["name"], "json": payload})
                    elif pos == "as_field":
                        rts.append({"id": rid, "model": "Holder" + u["name"], "json": {"val": payload, "label": "l"}})
                    elif pos == "as_list_item":
                        rts.append({"id": rid, "model": "Holder" + u["name"], "json": {"vals": [payload, payload], "label": "l"}})
                    else:
                        rts.append({"id": rid, "model": "Holder" + u["name"], "json": {"named": [payload], "label": "l"}})
                    earlier = [w for w in u["variants"][:vi] if w in POOL and accepts(w, payload) and w != v] if not u.get("disc") else []
                    others = [w for w in u["variants"] if w in POOL and accepts(w, payload) and w != v] if not u.get("disc") else []
                    meta[rid] = {"u": u, "variant": v, "payload": payload, "pk": pk, "pos": pos, "earlier": earlier, "others": others, "kind": "roundtrip"}
        if u.get("disc"):
            # unmapped discriminator value, and a mapped variant that cannot decode (required 'name' missing / wrong type)
            rid = f"{u['name']}-unmapped"
            rts.append({"id": rid, "model": u["name"], "json": {"kind": "unicorn", "name": "U"}})
            meta[rid] = {"u": u, "kind": "unmapped", "payload": {"kind": "unicorn", "name": "U"}, "pos": "as_alias"}
            v = u["variants"][-1]
            if "name" in DISC[v][0]["required"]:
                bad = {"kind": DISC[v][1], "lives": 1, "barkVolume": 2}   # 'name' (required) missing
                rid = f"{u['name']}-broken"
                rts.append({"id": rid, "model": u["name"], "json": bad})
                meta[rid] = {"u": u, "kind": "broken", "payload": bad, "variant": v, "pos": "as_alias"}
    # second pass in REVERSE order inside the same interpreter: decoding must not depend on what was decoded before (a
    # payload of a general variant first, then one of a more specific variant)
    for r in list(reversed(rts)):
        rid = r["id"] + "-rev"
        rts.append(dict(r, id=rid))
        meta[rid] = dict(meta[r["id"]], second_pass=True)
    if only and not only.endswith("-rev"):
        rts = [r for r in rts if r["id"] == only]
    job = {"root": str(root), "packages": [{"pkg": pkg, "core": pkg + ".core"}], "actions": ["roundtrips"], "roundtrips": rts}
    out = genrun.run_probe(job, root / "probe")
    if "probe_error" in out:
        rec.violation("probe:crash", [], {"unions": unions[:3]}, out["probe_error"][-400:])
        return
    po = out["packages"][pkg]["roundtrips"]
    for r in rts:
        m = meta[r["id"]]
        u = m["u"]
        o = po["results"].get(r["id"])
        if o is None:
            continue
        case = {"union": u, "roundtrip_id": r["id"], "model": r["model"], "json": r["json"]}
        dictish = sum(1 for v in u["variants"] if v in DISC or POOL[v][1] is not None)
        rec.case(case, nontrivial=dictish >= 2 or bool(u.get("disc")))
        feats = []
        if m.get("earlier"):
            feats.append("earlier_variant_accepts_payload")
            rec.count("cases_earlier_variant_accepts")
        if m.get("others"):
            # (diagnostic only: a later variant would accept the payload as well.  Documents never contain two unions with
            # the same member set, so typing's Union cache - keyed by set-equality - cannot impose another union's order)
            feats.append("another_variant_accepts_payload")
        if m.get("second_pass"):
            feats.append("second_pass_reverse_order")
        if u.get("disc"):
            feats.append("discriminated")
            feats.append(f"family_{u.get('family', 'plain')}")
        if m["kind"] == "unmapped":
            rec.count("unmapped_discriminator_checks")
            if o["stage"] == "ok":
                rec.violation("discriminator:unmapped_value_decoded_as_a_guess", feats, case, json.dumps(o)[:200])
            continue
        if m["kind"] == "broken":
            rec.count("broken_mapped_variant_checks")
            if o["stage"] == "ok":
                rec.violation("discriminator:undecodable_mapped_variant_retried_as_another", feats, case, json.dumps(o)[:200])
            continue
        rec.count("roundtrips")
        rec.count(f"payload_{m['pk']}" if m["pk"] in ("minimal", "maximal") else "payload_further_value")
        rec.count(m["pos"])
        if o["stage"] == "import":
            rec.violation("union:model_not_found", feats, case, json.dumps(o.get("exc", {}))[:200])
            continue
        if o["stage"] != "ok":
            rec.violation(f"union:{m['pos']}:{o['stage']}_raises:{o['exc']['type']}", feats, case, o["exc"]["msg"][:300])
            continue
        want = r["json"]
        diff = refmodel.jdiff(want, o["back"])
        if diff:
            rec.violation(f"union:{m['pos']}:lossy_decode", feats, case, diff[:200])
        elif u.get("disc") and m["pos"] == "as_alias" and norm(o.get("pytype")) != norm(m["variant"]):
            rec.violation("discriminator:wrong_variant_class", feats, case, f"{o.get('pytype')} != {m['variant']}")
    if len(rec.samples) < 2:
        u = unions[0]
        rec.sample({"union_schema": doc["components"]["schemas"][u["name"]], "example": rts[0], "result": po["results"].get(rts[0]["id"])})


def run_shard(ctx: Ctx) -> None:
    common.use_repo()
    us = all_unions(ctx)
    mine = [u for i, u in enumerate(us) if ctx.mine(i)]
    # one document never holds two unions over the same SET of variants (see the Union-cache note in run_doc)
    docs: list[list[dict]] = []
    for u in mine:
        key = frozenset(u["variants"])
        for dset in docs:
            if len(dset) < 25 and all(frozenset(x["variants"]) != key for x in dset):
                dset.append(u)
                break
        else:
            docs.append([u])
    for k, dset in enumerate(docs):
        run_doc(ctx, dset, ctx.shard * 1000 + k)


def replay(ctx: Ctx, file: dict) -> None:
    common.use_repo()
    c = file["case"]
    run_doc(ctx, [c["union"]], 1, only=c["roundtrip_id"])
