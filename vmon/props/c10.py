"""C10 — without force, existing output is never touched; writes stay contained.      (fault enumeration)

Sandbox project roots seeded with sentinel files x existing tree {equal, different, partially present} x force on/off x
layouts {embedded, sibling, nested core} are driven through the real generator while
  * an audit hook (vmon/fsmon.py) records every create / write-open / rename / remove / mkdir / rmdir / rmtree ... event
    under the project root and judges it online against the containment policy (and fences the workload into its scratch
    root: a destructive call outside it raises instead of doing damage);
  * before/after snapshots (path, size, sha256, mtime_ns) of the whole project root are compared;
  * faults are injected: (1) every stage (load, parse, six emitters, post-processing, diff) failing at entry and at exit,
    (2) a sys.monitoring LINE failpoint at every statement the fault-free run executed inside ClientGenerator.generate and
    the emitters' emit methods (each a separate run), (3) OSError(ENOSPC) from the audit hook at the k-th write, for every k.
"""
from __future__ import annotations

import json
import shutil
import sys
from pathlib import Path

import os

from .. import common, fsmon, genrun, stracemon
from ..common import Ctx

LEVEL = "fault_enumeration"
SHARDS = {"quick": 16, "thorough": 16}
FLOOR = {"quick": 300, "thorough": 5000}
REQUIRED_COUNTERS = ["runs", "stage_faults_fired", "line_failpoints_fired", "write_faults_fired", "fs_events_observed",
                     "snapshots_compared", "noforce_runs", "force_runs", "fault_free_runs", "line_failpoints_enumerated",
                     "postprocess_cli_runs", "postprocess_child_processes_traced", "postprocess_syscalls_parsed"]
RULE = ("configurations = 4 layouts x existing tree {equal, different, partial, interrupted (no client.py), core edited, core partial, equal under namespace-package ancestors} x force {off, on}; per configuration: fault-free run, "
        "every stage x {entry, exit}, every k-th write failing with ENOSPC, and LINE failpoints at the statements executed by the fault-free "
        "run (quick: every 6th, thorough: all); case = (configuration, fault); non-trivial = the fault point fired (or, fault-free, >=1 fs event)")
ASSUMPTIONS = ["in the fault-injection runs post-processing children (ruff) are not run, the stage is failed at entry; the fault-free "
               "command-line runs with post-processing ON are traced with strace -f (syscall level, children included)",
               "for LINE failpoints (synthetic exceptions that may land inside the generator's own try blocks) only the effect oracles "
               "(untouched / contained) are applied; the outcome is recorded"]

LAYOUTS = {"embedded": ("client1", None), "sibling": ("acme.client1", "acme.core"), "nested_core": ("acme.apis.client1", "corepkg.rt.core"),
           "prefix_sibling": ("acme.shop", "acme.shop_core")}   # core directory name starts with the client's directory name
STAGES = ["load", "parse", "exceptions", "core", "models", "endpoints", "client", "mocks", "postprocess", "diff"]


class InjectedFault(Exception):
    pass


def doc(variant: int) -> dict:
    props = {"id": {"type": "integer"}, "name": {"type": "string"}}
    if variant:
        props["extra"] = {"type": "string"}
    return {"openapi": "3.0.3", "info": {"title": "T", "version": "1"},
            "paths": {"/op1/pets/{petId}": {"get": {"operationId": "getPet", "tags": ["pets"], "parameters": [
                {"name": "petId", "in": "path", "required": True, "schema": {"type": "integer"}}],
                "responses": {"200": {"description": "ok", "content": {"application/json": {"schema": {"$ref": "#/components/schemas/Pet"}}}},
                              "404": {"description": "nf"}}}},
                      "/op2/orders": {"post": {"operationId": "createOrder", "tags": ["store"], "requestBody": {"required": True, "content": {
                          "application/json": {"schema": {"$ref": "#/components/schemas/Order"}}}}, "responses": {"201": {"description": "ok"}, "500": {"description": "e"}}}}},
            "components": {"schemas": {"Pet": {"type": "object", "required": ["id"], "properties": props},
                                       "Order": {"type": "object", "properties": {"pet": {"$ref": "#/components/schemas/Pet"}, "qty": {"type": "integer"}}}}}}


def seed_sentinels(root: Path, pkg: str, core: str | None) -> None:
    (root / "otherpkg").mkdir(parents=True)
    (root / "otherpkg" / "__init__.py").write_text("OTHER = 1\n")
    (root / "otherpkg" / "mod.py").write_text("x = 1\n")
    (root / ".env").write_text("SECRET=1\n")
    (root / "README.md").write_text("# user project\n")
    top = pkg.split(".")[0]
    out_name = pkg.split(".")[-1]
    out_parent = root.joinpath(*pkg.split(".")[:-1])
    out_parent.mkdir(parents=True, exist_ok=True)
    (out_parent / f"{out_name}_backup").mkdir()
    (out_parent / f"{out_name}_backup" / "keep.py").write_text("KEEP = 1\n")
    (out_parent / f"{out_name}2").mkdir()
    (out_parent / f"{out_name}2" / "__init__.py").write_text("SIBLING = 2\n")
    if "." in pkg:
        (root / top / "__init__.py").write_text("USER_CONTENT = 'do not touch'\n")
        (root / top / "usermod.py").write_text("y = 2\n")


def build_template(ctx: Ctx, layout: str, existing: str) -> tuple[Path, str, str | None]:
    pkg, core = LAYOUTS[layout]
    root = ctx.scratch.new(f"tmpl-{layout}-{existing}")
    seed_sentinels(root, pkg, core)
    spec_dir = ctx.scratch.new("specs")
    (spec_dir / "cur.json").write_text(json.dumps(doc(0)))
    if existing != "absent":
        d = doc(1) if existing == "different" else doc(0)
        r = genrun.generate(d, root, pkg, core, force=True, spec_path=genrun.write_spec(d, spec_dir / "old"))
        if not r.ok:
            raise RuntimeError(f"template generation failed: {r.error}")
        out_dir = root.joinpath(*pkg.split("."))
        (out_dir / "notes_by_hand.txt").write_text("user notes inside the output package\n")
        if existing == "partial":
            (out_dir / "models" / "order.py").unlink()
            shutil.rmtree(out_dir / "mocks")
        if existing == "interrupted":
            # what a generation interrupted before the client stage leaves behind: no client.py, no mocks
            (out_dir / "client.py").unlink()
            shutil.rmtree(out_dir / "mocks")
        core_dir = root.joinpath(*(core or pkg + ".core").split("."))
        if existing == "core_edited":
            # the client package matches; only a runtime file of the core differs from what would be generated
            f = core_dir / "http_transport.py"
            f.write_text(f.read_text() + "\n# edited by hand\nEDITED = 1\n")
        if existing == "core_partial":
            (core_dir / "pagination.py").unlink()
        if existing == "equal_namespace":
            # the output matches, but the ancestor packages are namespace packages (PEP 420): no __init__.py above the
            # output and core packages - creating one would be a write, and would hide the namespace's other portions
            for dpath in (out_dir, core_dir):
                cur = dpath.parent
                while cur != root and str(cur).startswith(str(root)):
                    if cur != out_dir and out_dir not in cur.parents:      # (an embedded core lives inside the output package)
                        (cur / "__init__.py").unlink(missing_ok=True)
                    cur = cur.parent
    return root, pkg, core


class Stages:
    """Wrappers around the real stage functions, installed once; `self.fail` = (stage, 'entry'|'exit') or None."""

    def __init__(self) -> None:
        self.fail: tuple[str, str] | None = None
        self.fired = 0
        common.use_repo()
        import pyopenapi_gen.generator.client_generator as cg

        self.cg = cg

        def wrap(owner, attr: str, stage: str) -> None:
            orig = getattr(owner, attr)

            def w(*a, **kw):
                if self.fail == (stage, "entry"):
                    self.fired += 1
                    raise InjectedFault(f"{stage} failed at entry")
                out = orig(*a, **kw)
                if self.fail == (stage, "exit"):
                    self.fired += 1
                    raise InjectedFault(f"{stage} failed at exit")
                return out

            setattr(owner, attr, w)

        wrap(cg.ClientGenerator, "_load_spec", "load")
        wrap(cg, "load_ir_from_spec", "parse")
        wrap(cg.ExceptionsEmitter, "emit", "exceptions")
        wrap(cg.CoreEmitter, "emit", "core")
        wrap(cg.ModelsEmitter, "emit", "models")
        wrap(cg.EndpointsEmitter, "emit", "endpoints")
        wrap(cg.ClientEmitter, "emit", "client")
        wrap(cg.MocksEmitter, "emit", "mocks")
        wrap(cg.PostprocessManager, "run", "postprocess")
        wrap(cg.ClientGenerator, "_show_diffs", "diff")


class LinePoints:
    """sys.monitoring LINE observer / failpoint on ClientGenerator.generate and the emitters' emit methods."""

    TOOL = 3

    def __init__(self, stages: Stages) -> None:
        mt = sys.monitoring
        try:
            mt.use_tool_id(self.TOOL, "vmon-c10")
        except ValueError:
            pass
        cg = stages.cg
        import pyopenapi_gen.emitters.models_emitter as me

        fns = [cg.ClientGenerator.generate]
        for cls in (cg.ExceptionsEmitter, cg.CoreEmitter, cg.ModelsEmitter, cg.EndpointsEmitter, cg.ClientEmitter, cg.MocksEmitter):
            f = cls.__dict__["emit"]
            # emit is wrapped by Stages: reach the original through the closure
            orig = f.__closure__[0].cell_contents if f.__closure__ else f
            for c in (f.__closure__ or ()):
                if callable(c.cell_contents) and getattr(c.cell_contents, "__name__", "") == "emit":
                    orig = c.cell_contents
            fns.append(orig)
        fns.append(me.ModelsEmitter._generate_model_file)
        self.codes = {f.__code__ for f in fns if hasattr(f, "__code__")}
        self.mode = "off"
        self.seen: list[tuple[str, int]] = []
        self.seen_set: set[tuple[str, int]] = set()
        self.target: tuple[str, int] | None = None
        self.fired = False
        mt.register_callback(self.TOOL, mt.events.LINE, self._on_line)
        for c in self.codes:
            mt.set_local_events(self.TOOL, c, mt.events.LINE)

    def _on_line(self, code, line):
        if self.mode == "record":
            k = (code.co_qualname, line)
            if k not in self.seen_set:
                self.seen_set.add(k)
                self.seen.append(k)
        elif self.mode == "fail" and not self.fired and (code.co_qualname, line) == self.target:
            self.fired = True
            raise InjectedFault(f"line failpoint {self.target}")
        return None


def allowed(p: str, root: Path, pkg: str, core: str | None) -> bool:
    out_dir = str(root.joinpath(*pkg.split(".")))
    core_dir = str(root.joinpath(*(core or pkg + ".core").split(".")))
    if p == out_dir or p.startswith(out_dir + "/") or p == core_dir or p.startswith(core_dir + "/"):
        return True
    # __init__.py of ancestor packages and the ancestor directories themselves
    for d in (out_dir, core_dir):
        cur = Path(d).parent
        while str(cur).startswith(str(root)) and cur != root:
            if p == str(cur) or p == str(cur / "__init__.py"):
                return True
            cur = cur.parent
    return False


def one_run(ctx: Ctx, tmpl: Path, layout: str, existing: str, force: bool, fault: dict, stages: Stages, lines: LinePoints) -> dict:
    rec = ctx.rec
    pkg, core = LAYOUTS[layout]
    work = ctx.scratch.new("run")
    root = work / "proj"
    shutil.copytree(tmpl, root, symlinks=True)
    spec = work / "cur.json"
    spec.write_text(json.dumps(doc(0)))
    before = fsmon.snapshot(root)
    case = {"layout": layout, "existing": existing, "force": force, "fault": fault}
    feats = [f"layout_{layout}", f"existing_{existing}", "force" if force else "noforce", f"fault_{fault['kind']}"]
    stages.fail, stages.fired = None, 0
    lines.mode, lines.fired, lines.target = "off", False, None
    enospc = None
    if fault["kind"] == "stage":
        stages.fail = (fault["stage"], fault["when"])
    elif fault["kind"] == "line":
        lines.mode, lines.target = "fail", tuple(fault["point"])
    elif fault["kind"] == "enospc":
        enospc = fault["k"]
    elif fault["kind"] == "none" and fault.get("record_lines"):
        lines.mode = "record"
    fsmon.MON.start(root, ctx.scratch.root, enospc_at=enospc, watch_root=ctx.scratch.root)
    outcome = "ok"
    try:
        r = genrun.generate(doc(0), root, pkg, core, force=force, spec_path=spec, no_postprocess=fault.get("stage") != "postprocess")
        if not r.ok:
            outcome = f"raise:{r.error_type}"
    except fsmon.FenceViolation as e:
        outcome = "fence"
        rec.violation("containment:destructive_call_outside_scratch_root", feats, case, str(e)[:300])
    except BaseException as e:  # noqa
        outcome = f"raise:{type(e).__name__}"
    events = fsmon.MON.stop()
    writes_seen = fsmon.MON.write_opens
    stages.fail = None
    lines.mode = "off"
    after = fsmon.snapshot(root)
    rec.count("runs")
    rec.count("force_runs" if force else "noforce_runs")
    rec.count("snapshots_compared")
    eff = [(k, p) for k, p, c in events if c == "effect"]
    rec.count("fs_events_observed", len(events))
    rec.count("fs_events_noop_mkdir", sum(1 for _, _, c in events if c == "noop"))
    fired = {"stage": stages.fired > 0, "line": lines.fired, "enospc": enospc is not None and writes_seen >= enospc, "none": True}[fault["kind"]]
    if fault["kind"] == "stage" and fired:
        rec.count("stage_faults_fired")
    if fault["kind"] == "line" and fired:
        rec.count("line_failpoints_fired")
    if fault["kind"] == "enospc" and fired:
        rec.count("write_faults_fired")
    if fault["kind"] == "none":
        rec.count("fault_free_runs")
    rec.case(case, nontrivial=fired if fault["kind"] != "none" else bool(events) or not force)
    rec.seen("outcomes", f"{'force' if force else 'noforce'}/{existing}/{fault['kind']}: {outcome}")
    out_exists = existing != "absent"
    # --- effect oracles
    if not force and out_exists:
        for k, p in eff:
            rec.violation(f"noforce:fs_event_under_project_root:{k}", feats, case, f"{k} {p[len(str(root)) + 1:]}")
        d = fsmon.snapshot_diff(before, after)
        if d:
            rec.violation("noforce:tree_changed", feats, case, "; ".join(d[:5]))
    for k, p in eff:
        if not allowed(p, root, pkg, core):
            rec.violation(f"containment:{k}_outside_output_and_core", feats, case, f"{k} {p[len(str(root)) + 1:]}")
    for rel in sorted(set(before) | set(after)):
        ab = str(root / rel)
        if not allowed(ab, root, pkg, core) and before.get(rel) != after.get(rel):
            rec.violation("containment:sentinel_changed", feats, case, f"{rel}: {before.get(rel)} -> {after.get(rel)}")
    # --- outcome oracle
    if fault["kind"] == "none":
        want_ok = force or existing in ("equal", "absent", "equal_namespace")
        if want_ok and outcome != "ok":
            rec.violation(f"outcome:fault_free_run_fails:{existing}", feats, case, outcome)
        if not want_ok and outcome == "ok":
            rec.violation(f"outcome:difference_reported_as_success:{existing}", feats, case, outcome)
    elif fault["kind"] in ("stage", "enospc") and fired and outcome == "ok":
        what = fault.get("stage", "write")
        if fault["kind"] == "enospc":
            ep = fsmon.MON.enospc_path or ""
            cat = ("debug_log" if ep.endswith(".log") else "models" if "/models/" in ep else "endpoints" if "/endpoints/" in ep else
                   "core" if "/core/" in ep else "mocks" if "/mocks/" in ep else Path(ep).name)
            what = f"write:{cat}"
            case = dict(case, enospc_path_category=cat)
        rec.violation(f"outcome:failure_swallowed:{what}", feats + [f"stage_{what}"], case, f"generation returned success although {fault} fired")
    return {"outcome": outcome, "events": len(events), "writes": writes_seen, "fired": fired}


# ---------------------------------------------------------------------------------------------------------------------
# Post-processing ON, through the real command line, children traced at syscall level.
# The documented invocation is `pyopenapi-gen spec --project-root . --output-package pkg`: the working directory IS the
# project root, and the post-processing stage runs `python -m ruff ...` three times as child processes. What those children
# create is invisible to an in-process audit hook, so the whole process tree runs under `strace -f -y` (vmon/stracemon.py)
# and the same two oracles are applied to the syscall log and to before/after snapshots.

CLI_WRAP = ("import sys, pathlib, pyopenapi_gen; src = sys.argv.pop(1); "
            "assert pathlib.Path(pyopenapi_gen.__file__).resolve().is_relative_to(src), pyopenapi_gen.__file__; "
            "from pyopenapi_gen.cli import app; sys.argv[0] = 'pyopenapi-gen'; app()")


def cli_cmd(spec: Path, root_arg: str, pkg: str, core: str | None, force: bool, postprocess: bool = True) -> list[str]:
    cmd = [common.PY, "-c", CLI_WRAP, str(common.REPO_SRC), str(spec), "--project-root", root_arg, "--output-package", pkg]
    if core:
        cmd += ["--core-package", core]
    if force:
        cmd.append("--force")
    if not postprocess:
        cmd.append("--no-postprocess")
    return cmd


def cli_env(ctx: Ctx) -> dict:
    env = {k: v for k, v in os.environ.items() if not k.startswith("PYTHON") and k != common.GUARD}
    env.update(PYTHONPATH=str(common.REPO_SRC), PYTHONDONTWRITEBYTECODE="1", PYTHONHASHSEED="0", TMPDIR=ctx.scratch.tmpdir(),
               NO_COLOR="1")
    for k in ("RUFF_NO_CACHE", "RUFF_CACHE_DIR"):
        env.pop(k, None)
    return env


def pp_template(ctx: Ctx, layout: str, existing: str) -> Path:
    """A project root whose existing output was produced WITH post-processing (from a neutral working directory)."""
    import subprocess

    pkg, core = LAYOUTS[layout]
    root = ctx.scratch.new(f"pptmpl-{layout}-{existing}")
    seed_sentinels(root, pkg, core)
    if existing != "absent":
        neutral = ctx.scratch.new("neutral-cwd")
        spec = neutral / "old.json"
        spec.write_text(json.dumps(doc(1) if existing == "different" else doc(0)))
        r = subprocess.run(cli_cmd(spec, str(root), pkg, core, True), cwd=str(neutral), env=cli_env(ctx), capture_output=True, text=True, timeout=600)
        if r.returncode != 0:
            raise RuntimeError(f"post-processed template generation failed: {r.stderr[-600:]}")
        out_dir = root.joinpath(*pkg.split("."))
        (out_dir / "notes_by_hand.txt").write_text("user notes inside the output package\n")
        if existing == "partial":
            (out_dir / "models" / "order.py").unlink()
    return root


def pp_run(ctx: Ctx, layout: str, existing: str, force: bool, cwd_mode: str) -> None:
    rec = ctx.rec
    pkg, core = LAYOUTS[layout]
    tmpl = pp_template(ctx, layout, existing)
    work = ctx.scratch.new("pprun")
    root = work / "proj"
    shutil.copytree(tmpl, root, symlinks=True)
    spec = work / "cur.json"
    spec.write_text(json.dumps(doc(0)))
    case = {"scenario": "postprocess_cli", "layout": layout, "existing": existing, "force": force, "cwd": cwd_mode}
    feats = ["postprocess_on", f"layout_{layout}", f"existing_{existing}", "force" if force else "noforce", f"cwd_{cwd_mode}"]
    if cwd_mode == "root":
        cwd, root_arg = root, "."
    else:
        cwd, root_arg = work / "elsewhere", str(root)
        cwd.mkdir()
    before = fsmon.snapshot(root)
    try:
        t = stracemon.run(cli_cmd(spec, root_arg, pkg, core, force), cwd, cli_env(ctx), work / "strace.log", timeout=900)
    except Exception as e:  # strace missing / ptrace refused / timeout: nothing was observed
        rec.inconclusive.append(f"postprocess scenario could not be traced: {type(e).__name__}: {e}"[:300])
        return
    after = fsmon.snapshot(root)
    rec.count("postprocess_cli_runs")
    rec.count("runs")
    rec.count("snapshots_compared")
    rec.count("postprocess_child_processes_traced", max(0, len(t.pids) - 1))
    rec.count("postprocess_syscalls_parsed", t.calls)
    rec.count("postprocess_log_lines_unparsed", t.unparsed)
    rs = str(root)
    eff = [(k, p) for k, p, _ in t.events if p == rs or p.startswith(rs + "/")]
    rec.count("postprocess_fs_events_under_project_root", len(eff))
    rec.count("fs_events_observed", len(t.events))
    outcome = "ok" if t.returncode == 0 else ("raise" if t.returncode == 1 and "Generation failed" in t.stderr else f"exit{t.returncode}")
    rec.seen("outcomes", f"postprocess/{'force' if force else 'noforce'}/{existing}/{cwd_mode}: {outcome}")
    rec.case(case, nontrivial=len(t.pids) > 1)
    if len(t.pids) <= 1:
        rec.inconclusive.append("postprocess scenario: no child process was traced (post-processing did not run?)")
    out_exists = existing != "absent"
    if not force and out_exists:
        for k, p in eff:
            rec.violation(f"noforce:postprocess:fs_event_under_project_root:{k}", feats, case, f"{k} {p[len(rs) + 1:]}")
        d = fsmon.snapshot_diff(before, after)
        if d:
            rec.violation("noforce:postprocess:tree_changed", feats, case, "; ".join(d[:5]))
    for k, p in eff:
        if not allowed(p, root, pkg, core):
            rec.violation(f"containment:postprocess:{k}_outside_output_and_core", feats, case, f"{k} {p[len(rs) + 1:]}")
    for rel in sorted(set(before) | set(after)):
        if not allowed(str(root / rel), root, pkg, core) and before.get(rel) != after.get(rel):
            rec.violation("containment:postprocess:sentinel_changed", feats, case, f"{rel}: {before.get(rel)} -> {after.get(rel)}")
    want_ok = force or existing in ("equal", "absent")
    if want_ok and outcome != "ok":
        rec.violation(f"outcome:postprocess:fault_free_run_fails:{existing}", feats, case, f"{outcome}: {t.stderr[-400:]}")
    if not want_ok and outcome == "ok":
        rec.violation(f"outcome:postprocess:difference_reported_as_success:{existing}", feats, case, outcome)
    if outcome.startswith("exit"):
        rec.violation("outcome:postprocess:command_line_crashed", feats, case, f"{outcome}: {t.stderr[-600:]}")
    if len(rec.samples) < 3:
        rec.sample({"scenario": case, "exit": t.returncode, "processes": len(t.pids), "syscalls": t.calls,
                    "events_under_project_root": sorted({f"{k} {p[len(rs) + 1:]}" for k, p in eff})[:12]})


def pp_configs(quick: bool) -> list[tuple[str, str, bool, str]]:
    if quick:
        return [("embedded", "equal", False, "root"), ("embedded", "different", False, "root"), ("embedded", "absent", False, "root"),
                ("sibling", "equal", True, "root"), ("sibling", "equal", False, "root"), ("prefix_sibling", "different", False, "root"),
                ("nested_core", "equal", False, "elsewhere"), ("nested_core", "absent", True, "root")]
    return [(l, e, f, c) for l in LAYOUTS for e in ("absent", "equal", "different", "partial") for f in (False, True) for c in ("root", "elsewhere")]


def run_shard(ctx: Ctx) -> None:
    common.use_repo()
    genrun.quiet()
    stages = Stages()
    lines = LinePoints(stages)
    fsmon.MON.install()
    configs = [(l, e, f) for l in LAYOUTS for e in ("equal", "different", "partial", "interrupted", "core_edited", "core_partial", "equal_namespace") for f in (False, True)]
    # (namespace-package ancestors exist only above a dotted package; the quick tier keeps the no-force half, where it matters)
    configs = [c for c in configs if c[1] != "equal_namespace" or (c[0] != "embedded" and not (ctx.quick and c[2]))]
    mine = [c for i, c in enumerate(configs) if ctx.mine(i)]
    for layout, existing, force in mine:
        tmpl, pkg, core = build_template(ctx, layout, existing)
        lines.seen, lines.seen_set = [], set()
        base = one_run(ctx, tmpl, layout, existing, force, {"kind": "none", "record_lines": True}, stages, lines)
        points = list(lines.seen)
        ctx.rec.count("line_failpoints_enumerated", len(points))
        for st in STAGES:
            for when in ("entry", "exit"):
                if st == "postprocess" and when == "exit":
                    continue
                one_run(ctx, tmpl, layout, existing, force, {"kind": "stage", "stage": st, "when": when}, stages, lines)
        for k in range(1, base["writes"] + 1, 1 if not ctx.quick else 3):
            one_run(ctx, tmpl, layout, existing, force, {"kind": "enospc", "k": k}, stages, lines)
        step = 6 if ctx.quick else 1
        for i in range(ctx.seed % step, len(points), step):
            one_run(ctx, tmpl, layout, existing, force, {"kind": "line", "point": list(points[i])}, stages, lines)
        if len(ctx.rec.samples) < 2:
            ctx.rec.sample({"configuration": [layout, existing, force], "fault_free": base, "line_points": len(points),
                            "example_points": points[:3]})
    # post-processing ON through the command line, traced at syscall level (spread over the shards, last shards first)
    for i, (layout, existing, force, cwd_mode) in enumerate(pp_configs(ctx.quick)):
        if ctx.mine(ctx.nshards - 1 - i % ctx.nshards):
            pp_run(ctx, layout, existing, force, cwd_mode)
    # first-run containment (no existing output): one fault-free run per layout on shard 0
    if ctx.shard == 0:
        for layout in LAYOUTS:
            tmpl, pkg, core = build_template(ctx, layout, "absent")
            one_run(ctx, tmpl, layout, "absent", False, {"kind": "none"}, stages, lines)


def replay(ctx: Ctx, file: dict) -> None:
    common.use_repo()
    genrun.quiet()
    stages = Stages()
    lines = LinePoints(stages)
    fsmon.MON.install()
    c = file["case"]
    if c.get("scenario") == "postprocess_cli":
        pp_run(ctx, c["layout"], c["existing"], c["force"], c["cwd"])
        return
    tmpl, pkg, core = build_template(ctx, c["layout"], c["existing"])
    one_run(ctx, tmpl, c["layout"], c["existing"], c["force"], c["fault"], stages, lines)
