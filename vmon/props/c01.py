"""C01 — every accepted spec yields a package that compiles and imports.

Workload: clean documents from the seeded grammar x output layouts (package depth 1..3 x embedded / explicitly embedded /
sibling / nested-elsewhere core) x the three naming strategies, plus one trigger class per open finding.
Monitors: compile() of every emitted .py in the worker; vmon/probe.py under a fresh `python -I` (generator blocked on
the meta path): import every module (names derived from the emitted file tree), resolve every __all__ name.
A generation that raises is 'rejected', not a violation.
"""
from __future__ import annotations

import json
import os
from pathlib import Path
from typing import Any

from .. import common, genrun, richgen, shapes, specgen
from ..common import Ctx

LEVEL = "exploration"
SHARDS = {"quick": 16, "thorough": 16}
FLOOR = {"quick": 150, "thorough": 3000}
REQUIRED_COUNTERS = ["generations_accepted", "files_compiled", "modules_imported", "all_names_resolved", "probe_runs",
                     "schema_shape_documents", "shared_core_pairs"]
RULE = ("documents drawn from the seeded OpenAPI grammar (schema graphs with refs, allOf, oneOf/anyOf, arrays, maps, enums, nullable, "
        "formats, 5 property-name styles; operations with path/query/header params, path-level params, json/form/multipart/octet "
        "bodies, several 2xx/4xx/5xx/default responses) x 9 layouts x 3 naming strategies; a case = (document, layout, strategy); "
        "non-trivial = accepted document with >=1 operation and >=2 schemas joined by a reference")
ASSUMPTIONS = ["fresh interpreter = /venv/bin/python -I with the generator blocked by a meta-path finder (the venv itself has more "
               "than httpx+cattrs installed; imports of anything else are judged by C12's import audit)",
               "post-processing (ruff/mypy child processes) is skipped: no_postprocess=True"]

LAYOUTS = [("c{n}", None), ("acme{n}.client1", None), ("acme{n}.apis.client1", None),
           ("c{n}", "c{n}.core"), ("acme{n}.client1", "acme{n}.core"), ("acme{n}.apis.client1", "acme{n}.shared.core"),
           ("c{n}", "sharedcore{n}"), ("acme{n}.apis.client1", "corepkg{n}.rt.core"), ("c{n}", "c{n}_core")]
STRATEGIES = ["operationId", "clean", "path"]

# trigger classes: feature flag -> open finding they exercise (documents from these never count as clean)
TRIGGER_CLASSES: list[set[str]] = [{"mutual_ref"}, {"enum_sunder_value"}, {"promoted_name_reuse"}, {"stream_with_secondary_2xx"}]


def norm_sig(failure: dict) -> str:
    import re

    msg = re.sub(r"\(/[^)]*\)", "", failure.get("msg", ""))
    msg = re.sub(r"\(\w+\.py, line \d+\)", "", msg)
    msg = re.sub(r"['\"][^'\"]*['\"]", "'…'", msg)
    msg = re.sub(r"\d+", "N", msg)[:90]
    where = os.path.basename(failure.get("where", "").split(":")[0])
    where = "models/<model>" if "/models/" in failure.get("where", "") and where != "__init__.py" else where
    return f"import:{failure['type']}:{where}:{msg}"


def compile_all(files: list[str], rec, feats, case) -> int:
    n = 0
    for f in files:
        if not f.endswith(".py"):
            continue
        try:
            src = Path(f).read_text()
        except OSError:
            continue
        try:
            compile(src, f, "exec")
            n += 1
        except SyntaxError as e:
            rel = "/".join(Path(f).parts[-2:])
            rel = "models/<model>" if "/models/" in f and not f.endswith("__init__.py") else rel
            if "/endpoints/" in f and not f.endswith("__init__.py"):
                rel = "mocks/endpoints/<tag>" if "/mocks/" in f else "endpoints/<tag>"
            rec.violation(f"compile:SyntaxError:{rel}:{e.msg}", feats, case, f"{f}:{e.lineno}: {e.text!r}")
    return n


def run_batch(ctx: Ctx, batch: list[dict]) -> None:
    """batch items: {"doc": Doc, "layout": int, "strategy": str, "n": int, "trigger": set}"""
    rec = ctx.rec
    root = ctx.scratch.new("proj")
    accepted = []
    for it in batch:
        d: specgen.Doc = it["doc"]
        pkg_t, core_t = LAYOUTS[it["layout"]]
        pkg = pkg_t.format(n=it["n"])
        core = core_t.format(n=it["n"]) if core_t else None
        it["pkg"], it["core"] = pkg, core
        case = {"doc": d.doc, "layout": [pkg_t, core_t], "strategy": it["strategy"]}
        it["case"] = case
        feats = sorted(d.features & it["trigger"]) if it["trigger"] else []
        it["feats"] = feats
        rec.count("generations")
        res = genrun.generate(d.doc, root, pkg, core, force=True, strategy=it["strategy"],
                              spec_path=genrun.write_spec(d.doc, root / f"spec{it['n']}"))
        if not res.ok:
            rec.count("generations_rejected")
            rec.seen("rejection_reasons", (res.error or "")[:100])
            rec.case(case, nontrivial=False)
            continue
        rec.count("generations_accepted")
        rec.case(case, nontrivial=d.nontrivial())
        for f in d.features:
            rec.seen("features", f)
        rec.seen("layouts", f"{pkg_t}|{core_t}")
        rec.seen("strategies", it["strategy"])
        allfiles = [str(p) for p in (root / pkg.split(".")[0]).rglob("*.py")]
        if core and core.split(".")[0] != pkg.split(".")[0]:
            allfiles += [str(p) for p in (root / core.split(".")[0]).rglob("*.py")]
        rec.count("files_compiled", compile_all(allfiles, rec, feats, case))
        accepted.append(it)
        if len(rec.samples) < 2:
            rec.sample({"document": d.doc, "layout": [pkg, core], "strategy": it["strategy"], "files": len(res.files)})
    if not accepted:
        return

    def probe(items: list[dict], tag: str) -> dict:
        job = {"root": str(root), "packages": [{"pkg": i["pkg"], "core": i["core"] or i["pkg"] + ".core"} for i in items],
               "actions": ["import_all"]}
        rec.count("probe_runs")
        return genrun.run_probe(job, root / f"probe-{tag}")

    out = probe(accepted, "batch")
    if "probe_error" in out:
        # batch-level problem: fall back to one probe per package
        outs = {i["n"]: probe([i], f"solo{i['n']}") for i in accepted}
    else:
        ia = out["import_all"]
        rec.count("modules_imported", ia["modules"])
        rec.count("all_names_resolved", ia["all_names"] - len(ia["all_unresolved"]))
        bad_tops = set()
        for f in ia["failures"]:
            bad_tops.add(f["module"].split(".")[0])
        for u in ia["all_unresolved"]:
            bad_tops.add(u["module"].split(".")[0])
        # any failure inside a batch is re-run alone in its own fresh interpreter before it is believed
        outs = {i["n"]: probe([i], f"solo{i['n']}") for i in accepted
                if i["pkg"].split(".")[0] in bad_tops or (i["core"] and i["core"].split(".")[0] in bad_tops)}
    for it in accepted:
        o = outs.get(it["n"])
        if o is None:
            continue
        if "probe_error" in o:
            rec.violation("probe:crash", it["feats"], it["case"], o["probe_error"][-600:])
            continue
        ia = o["import_all"]
        seen = set()
        for f in ia["failures"]:
            sig = norm_sig(f)
            if sig in seen:
                continue
            seen.add(sig)
            rec.violation(sig, it["feats"], it["case"], json.dumps(f)[:700])
        for u in ia["all_unresolved"]:
            rec.violation("all:unresolved_name", it["feats"], it["case"], json.dumps(u))


PAIR_LAYOUTS = [("shop{n}", "billing{n}", "shop{n}_core"), ("acme{n}.shop", "acme{n}.billing", "acme{n}.shop_core"),
                ("orders{n}", "billing{n}", "common{n}.core"), ("a{n}.client", "b{n}.client", "a{n}.client_core")]


def shared_core_pair(ctx: Ctx, n: int, docs: list[dict] | None = None, layout: int | None = None) -> None:
    """Two clients generated one after the other into ONE project with ONE shared core (incl. a core whose directory
    name extends a client's): afterwards every module of BOTH packages must still import."""
    rec, rng = ctx.rec, ctx.rng
    li = layout if layout is not None else rng.randrange(len(PAIR_LAYOUTS))
    a, b, core = (x.format(n=n) for x in PAIR_LAYOUTS[li])
    if docs is None:
        docs = [specgen.generate(rng, prof={"ops": (1, 3), "schemas": (2, 4), "p_errors": 1.0}).doc for _ in range(2)]
    root = ctx.scratch.new("pair")
    case = {"pair": True, "docs": docs, "pair_layout": li}
    rec.count("shared_core_pairs")
    for pkg, doc in zip((a, b), docs):
        res = genrun.generate(doc, root, pkg, core, force=True, spec_path=genrun.write_spec(doc, root / f"spec-{pkg.replace('.', '_')}"))
        if not res.ok:
            rec.count("generations_rejected")
            rec.case(case, nontrivial=False)
            return
    rec.case(case, nontrivial=True)
    out = genrun.run_probe({"root": str(root), "packages": [{"pkg": a, "core": core}, {"pkg": b, "core": core}], "actions": ["import_all"]},
                           root / "probe")
    rec.count("probe_runs")
    if "probe_error" in out:
        rec.violation("pair:probe:crash", [], case, out["probe_error"][-600:])
        return
    ia = out["import_all"]
    rec.count("modules_imported", ia["modules"])
    seen = set()
    for f in ia["failures"]:
        sig = "pair:" + norm_sig(f)
        if sig not in seen:
            seen.add(sig)
            rec.violation(sig, [], case, json.dumps(f)[:700])


def recursive_union_doc(rng) -> specgen.Doc:
    """A named union one of whose members contains the union itself (the 'JSON value' / expression-tree shape)."""
    R = lambda n: {"$ref": f"#/components/schemas/{n}"}  # noqa
    kw = rng.choice(["oneOf", "anyOf"])
    name = rng.choice(["Expr", "JsonVal", "tree_node"])
    members = [{"type": "string"}, {"type": "number"}, {"type": "array", "items": R(name)},
               {"type": "object", "additionalProperties": R(name)}, R("Leaf")]
    rng.shuffle(members)
    members = members[:rng.randint(3, 5)]
    if not any(name in json.dumps(m) for m in members):
        members.append({"type": "array", "items": R(name)})
    schemas = {name: {kw: members}, "Leaf": {"type": "object", "properties": {"label": {"type": "string"}}},   # (no reference back: a cycle BETWEEN models is the recorded mutual_ref class)
               "Holder": {"type": "object", "properties": {"value": R(name), "values": {"type": "array", "items": R(name)}}}}
    doc = {"openapi": "3.0.3", "info": {"title": "Recursive union", "version": "1"}, "paths": {
        "/op1/eval": {"post": {"operationId": "evaluate", "requestBody": {"required": True, "content": {"application/json": {"schema": R(name)}}},
                              "responses": {"200": {"description": "ok", "content": {"application/json": {"schema": R("Holder")}}}}}}},
        "components": {"schemas": schemas}}
    return specgen.Doc(doc, {"a": 1, "b": 2}, [{}], {"recursive_union"})


def make_items(ctx: Ctx, count: int, start: int):
    rng = ctx.rng
    items = []
    for k in range(count):
        trig: set[str] = set()
        if TRIGGER_CLASSES and rng.random() < 0.12:
            trig = rng.choice(TRIGGER_CLASSES)
        d = specgen.generate(rng, allow=trig, prof={"opid_shapes": True, "p_stream": 0.5 if "stream_with_secondary_2xx" in trig else 0.12,
                                                     "p_multi2xx": 0.8 if "stream_with_secondary_2xx" in trig else 0.25,
                                                     "p_multi_media": 0.1, "p_multi_response_media": 0.15, "json_media_variants": True,
                                                     "p_nullable_response": 0.15, "p_component_refs": 0.25, "p_range_2xx": 0.08})
        if rng.random() < 0.25:
            # one tag spelled in several ways (case / punctuation / word split): endpoints, client and mocks must agree
            fam = rng.choice([["petstore", "petStore", "PetStore"], ["DataSources", "datasources", "data_sources"], ["users", "Users", "USERS"]])
            for pth, item in d.doc["paths"].items():
                for meth, op in item.items():
                    if isinstance(op, dict) and "responses" in op and rng.random() < 0.7:
                        op["tags"] = [rng.choice(fam)]
            d.features.add("tag_spelling_variants")
        if rng.random() < 0.12:
            # references to schemas the document does not define (plain, and the '<X>ListResponse' / '<X>Response' spellings
            # the loader has fallbacks for): accepted documents, so everything emitted for them must still import
            objs = [n for n, sc in d.doc["components"]["schemas"].items() if isinstance(sc, dict) and "properties" in sc]
            if objs:
                host = rng.choice(objs)
                base = rng.choice(objs)
                tgt = rng.choice(["NoSuchSchema", base + "ListResponse", base + "Response", base + "List"])
                d.doc["components"]["schemas"][host]["properties"]["danglingRef"] = rng.choice([
                    {"$ref": f"#/components/schemas/{tgt}"}, {"type": "array", "items": {"$ref": f"#/components/schemas/{tgt}"}}])
                d.features.add("dangling_ref")
        items.append({"doc": d, "layout": rng.randrange(len(LAYOUTS)), "strategy": rng.choice(STRATEGIES),
                      "n": start + k, "trigger": trig})
    return items


def corpus_docs() -> list[tuple[str, dict]]:
    """The repository's bundled specifications (thorough tier): real-world shapes the grammar does not produce."""
    import glob
    import yaml

    out = []
    for pat in ("input/*.json", "tests/specs/*.yaml", "tests/generation_issues/specs/*.json", "tests/generation_issues/specs/*.yaml"):
        for f in sorted(glob.glob(str(common.REPO_ROOT / pat))):
            try:
                txt = Path(f).read_text()
                doc = json.loads(txt) if f.endswith(".json") else yaml.safe_load(txt)
            except Exception:
                continue
            if isinstance(doc, dict) and "paths" in doc:
                out.append((Path(f).name, doc))
    return out


def resource_tag_docs() -> list:
    """Tags spelled like a schema of the document (resource-named tags): the tag's endpoint module and the model's module
    share a file name (endpoints/pet.py, models/pet.py). One operation per position in which the schema can appear."""
    R = lambda n: {"$ref": f"#/components/schemas/{n}"}  # noqa
    out = []
    for tag in ("Pet", "pet", "Status"):
        for pos in ("response", "array_response", "body_required", "body_optional", "multi_media_required", "multi_media_optional", "enum_param"):
            op: dict = {"operationId": "updatePet", "tags": [tag], "responses": {"204": {"description": "done"}}}
            if pos == "response":
                op["responses"] = {"200": {"description": "ok", "content": {"application/json": {"schema": R("Pet")}}}}
            elif pos == "array_response":
                op["responses"] = {"200": {"description": "ok", "content": {"application/json": {"schema": {"type": "array", "items": R("Pet")}}}}}
            elif pos.startswith("body") or pos.startswith("multi"):
                content = {"application/json": {"schema": R("Pet")}}
                if pos.startswith("multi"):
                    content["multipart/form-data"] = {"schema": {"type": "object", "properties": {"file": {"type": "string", "format": "binary"}}}}
                op["requestBody"] = {"required": pos.endswith("required"), "content": content}
                op["responses"] = {"200": {"description": "ok", "content": {"application/json": {"schema": R("Pet")}}}}
            else:
                op["parameters"] = [{"name": "status", "in": "query", "schema": R("Status")}]
            doc = {"openapi": "3.0.3", "info": {"title": "T", "version": "1"}, "paths": {"/op1/pets": {"put": op}},
                   "components": {"schemas": {"Pet": {"type": "object", "properties": {"name": {"type": "string"}, "status": R("Status")}},
                                              "Status": {"type": "string", "enum": ["new", "sold"]}}}}
            d = specgen.Doc(doc, {"Pet": {"kind": "object"}, "Status": {"kind": "enum"}}, [{}], {"tag_named_like_a_schema", f"resource_tag_{pos}"})
            out.append(d)
    return out


def run_shard(ctx: Ctx) -> None:
    common.use_repo()
    total = 40 if ctx.quick else 1200
    bs = 10
    for b in range(0, total, bs):
        run_batch(ctx, make_items(ctx, bs, ctx.shard * 100000 + b))
    for k in range(3 if ctx.quick else 60):
        shared_core_pair(ctx, ctx.shard * 1000 + k)
    # schema-centred inputs: the compositional grammar and the exhaustive shape catalogue, as models, as response bodies
    # and as request bodies (everything emitted for them must compile and import as well)
    extra = [recursive_union_doc(ctx.rng) for _ in range(2 if ctx.quick else 30)]
    for k in range(2 if ctx.quick else 40):
        allow = {"free_form_empty_schema", "object_with_extras"} if k % 2 else set()
        extra.append(richgen.generate(ctx.rng, allow=allow))
    chunks = shapes.chunked(2 if ctx.quick else 3, 30)
    for ci, chunk in enumerate(chunks):
        if ctx.mine(ci):
            extra += [shapes.document(chunk), shapes.response_document(chunk), shapes.request_document(chunk)]
    extra += [d for i, d in enumerate(resource_tag_docs()) if ctx.mine(i)]
    for k, d in enumerate(extra):
        d.features = set(d.features) | {"schema_shapes"}
        ctx.rec.count("schema_shape_documents")
        run_batch(ctx, [{"doc": d, "layout": (ctx.shard + k) % len(LAYOUTS), "strategy": STRATEGIES[k % 3],
                         "n": 500000 + ctx.shard * 1000 + k, "trigger": set()}])
    if not ctx.quick:
        docs = corpus_docs()
        for i, (name, doc) in enumerate(docs):
            if ctx.mine(i):
                d = specgen.Doc(doc, {"x": 1, "y": 2}, [{}], {"corpus"})
                ctx.rec.count("corpus_documents")
                ctx.rec.seen("corpus_files", name)
                run_batch(ctx, [{"doc": d, "layout": i % len(LAYOUTS), "strategy": STRATEGIES[i % 3], "n": 900000 + ctx.shard * 100 + i,
                                 "trigger": {"corpus"}}])


def finalize(m: dict, tier: str, seed: int) -> None:
    g = m["counters"].get("generations", 0)
    a = m["counters"].get("generations_accepted", 0)
    if g and a / g < 0.5:
        m["inconclusive"].append(f"only {a}/{g} clean documents were accepted by the generator (acceptance collapsed)")


def replay(ctx: Ctx, file: dict) -> None:
    common.use_repo()
    c = file["case"]
    if c.get("pair"):
        shared_core_pair(ctx, 1, c["docs"], c["pair_layout"])
        return
    li = [i for i, l in enumerate(LAYOUTS) if [l[0], l[1]] == c["layout"]]
    d = specgen.Doc(c["doc"], {}, [], set(file.get("features", [])))
    run_batch(ctx, [{"doc": d, "layout": li[0] if li else 0, "strategy": c["strategy"], "n": 1,
                     "trigger": set(file.get("features", []))}])
