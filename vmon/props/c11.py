"""C11 — clients sharing one core package keep working as more are generated.

History monitor: sequences of generate actions (client, document, force) over three clients and four documents with
different declared error sets into ONE project with a shared core at package depth 1..4. After EVERY step, in a fresh
interpreter, every client generated so far must still import completely, and every name it takes from the core
(`from <core>… import X` collected from its files by ast) must still exist there. In vivo: recording postcondition on
ExceptionsEmitter._update_registry (returned codes contain every other registered client's codes).
"""
from __future__ import annotations

import ast
import itertools
import json
from pathlib import Path

from .. import common, genrun
from ..common import Ctx

LEVEL = "exploration"
SHARDS = {"quick": 16, "thorough": 16}
FLOOR = {"quick": 40, "thorough": 800}
REQUIRED_COUNTERS = ["history_steps", "import_probes", "core_symbol_checks", "histories_with_repetition", "histories_with_spec_change",
                     "nonforce_steps", "core_depth_1", "core_depth_2", "core_depth_3", "core_depth_4", "core_depth_5", "core_depth_6", "core_depth_7", "core_depth_8",
                     "registry_contract_evals"]
RULE = ("histories of (client, document, force) actions over 3 clients x 5 documents (declared error sets {404}, {422,500}, {}, {404,409,503}, {499,599}) "
        "x shared core at depth 1-4; quick: random histories of length 4; thorough: all two-step histories + random length 5-6; "
        "case = history; non-trivial = >=2 clients on one core and >=2 steps")
ASSUMPTIONS = ["a non-force step that raises (differences found) is a visible failure and not judged here (C09/C10); the tree it leaves is still probed"]

# (499 and 599 are not in the IANA registry: they get the generic Error<code> classes)
ERRSETS = {"d404": [404], "d422_500": [422, 500], "dnone": [], "d404_409_503": [404, 409, 503], "d499_599": [499, 599]}
# 5 and 6: a shared core whose directory name extends the directory name of one of the clients (shop / shop_core)
# 7 and 8: the shared core IS the embedded core of the first client (generated with its default layout), later clients point at it
CORES = {1: "sharedcore", 2: "acme.core", 3: "acme.shared.core", 4: "acme.platform.shared.core", 5: "shop_core", 6: "acme.shop_core",
         7: "alpha.core", 8: "acme.alpha.core"}
CLIENTS = {1: ["alpha", "beta", "gamma"], 2: ["acme.alpha", "acme.beta", "acme.gamma"], 3: ["acme.apis.alpha", "acme.apis.beta", "acme.gamma"],
           4: ["acme.apis.alpha", "acme.beta", "other.gamma"], 5: ["shop", "billing", "shop_api"], 6: ["acme.shop", "acme.billing", "other.gamma"],
           7: ["alpha", "beta", "gamma"], 8: ["acme.alpha", "acme.beta", "other.gamma"]}
NCONF = len(CORES)


def make_doc(name: str) -> dict:
    codes = ERRSETS[name]
    resp = {"200": {"description": "ok", "content": {"application/json": {"schema": {"$ref": "#/components/schemas/Thing"}}}}}
    for c in codes:
        resp[str(c)] = {"description": f"e{c}"}
    return {"openapi": "3.0.3", "info": {"title": name, "version": "1"},
            "paths": {"/op1/things/{id}": {"get": {"operationId": "getThing", "tags": ["things"], "parameters": [
                {"name": "id", "in": "path", "required": True, "schema": {"type": "string"}}], "responses": resp}}},
            "components": {"schemas": {"Thing": {"type": "object", "properties": {"id": {"type": "string"}, "n": {"type": "integer"}}}}}}


_contract = {"evals": 0, "bad": []}


def install_contract() -> None:
    common.use_repo()
    from pyopenapi_gen.emitters.exceptions_emitter import ExceptionsEmitter

    if getattr(ExceptionsEmitter._update_registry, "_vmon", False):
        return
    orig = ExceptionsEmitter._update_registry

    def wrapped(self, registry_path, client_name, status_codes):
        others: set[int] = set()
        try:
            reg = json.loads(Path(registry_path).read_text()) if Path(registry_path).exists() else {}
            for k, v in reg.items():
                if k != client_name:
                    others.update(v)
        except Exception:
            pass
        out = orig(self, registry_path, client_name, status_codes)
        _contract["evals"] += 1
        if not (others | set(status_codes)) <= set(out):
            _contract["bad"].append(f"returned {sorted(out)} lacks codes of other clients {sorted(others)} / own {sorted(status_codes)}")
        return out

    wrapped._vmon = True  # type: ignore[attr-defined]
    ExceptionsEmitter._update_registry = wrapped


def needed_core_symbols(root: Path, pkg: str, core: str) -> dict[str, set[str]]:
    """module of the core -> names imported from it by the client's files"""
    need: dict[str, set[str]] = {}
    base = root.joinpath(*pkg.split("."))
    for f in base.rglob("*.py"):
        try:
            tree = ast.parse(f.read_text())
        except SyntaxError:
            continue
        for node in ast.walk(tree):
            if isinstance(node, ast.ImportFrom) and node.level == 0 and node.module and (node.module == core or node.module.startswith(core + ".")):
                for a in node.names:
                    if a.name != "*":
                        need.setdefault(node.module, set()).add(a.name)
    return need


def run_history(ctx: Ctx, depth: int, history: list[tuple[int, str, bool]], n: int) -> None:
    rec = ctx.rec
    root = ctx.scratch.new("proj")
    core = CORES[depth]
    clients = CLIENTS[depth]
    case = {"depth": depth, "core": core, "history": [[clients[c], d, f] for c, d, f in history]}
    distinct_clients = len({c for c, _, _ in history})
    rec.case(case, nontrivial=distinct_clients >= 2 and len(history) >= 2)
    rec.count(f"core_depth_{depth}")
    if len({(c) for c, _, _ in history}) < len(history):
        rec.count("histories_with_repetition")
    seen_docs: dict[int, str] = {}
    generated: list[str] = []
    feats = [f"core_depth_{depth}"] + (["core_embedded_in_first_client"] if depth in (7, 8) else [])
    for si, (c, dname, force) in enumerate(history):
        pkg = clients[c]
        if c in seen_docs and seen_docs[c] != dname:
            rec.count("histories_with_spec_change")
        seen_docs[c] = dname
        doc = make_doc(dname)
        n0 = len(_contract["bad"])
        res = genrun.generate(doc, root, pkg, core, force=force, spec_path=genrun.write_spec(doc, root / f"spec-{si}"))
        rec.count("history_steps")
        if not force:
            rec.count("nonforce_steps")
        rec.seen("step_outcomes", "ok" if res.ok else f"raise:{res.error_type}")
        if res.ok and pkg not in generated:
            generated.append(pkg)
        for b in _contract["bad"][n0:]:
            rec.violation("contract:update_registry_drops_other_clients_codes", feats, dict(case, step=si), b)
        if not generated:
            continue
        # after EVERY step: every client generated so far imports, and the core still has what it needs
        job = {"root": str(root), "packages": [{"pkg": g, "core": core} for g in generated], "actions": ["import_all", "core_symbols"],
               "core_symbols": {g: {m: sorted(v) for m, v in needed_core_symbols(root, g, core).items()} for g in generated}}
        out = genrun.run_probe(job, root / f"probe{si}")
        rec.count("import_probes")
        if "probe_error" in out:
            rec.violation("probe:crash", feats, dict(case, step=si), out["probe_error"][-300:])
            continue
        for f in out["import_all"]["failures"]:
            top = f["module"]
            owner = next((g for g in generated if top == g or top.startswith(g + ".")), "core")
            if owner == pkg and not res.ok:
                continue
            who = "other_client" if owner not in (pkg, "core") else ("core" if owner == "core" else "same_client")
            rec.violation(f"history:import_fails:{who}:{f['type']}", feats, dict(case, step=si),
                          f"after step {si} ({pkg}, {dname}, force={force}): {f['module']}: {f['msg'][:160]}")
        for g, missing in (out.get("core_symbols_missing") or {}).items():
            rec.count("core_symbol_checks")
            for m in missing:
                who = "other_client" if g != pkg else "same_client"
                rec.violation(f"history:core_symbol_missing:{who}", feats, dict(case, step=si),
                              f"after step {si} ({pkg}, {dname}, force={force}): {g} needs {m}")
    rec.counters["registry_contract_evals"] = _contract["evals"]
    if len(rec.samples) < 2:
        rec.sample(case)


def histories(ctx: Ctx):
    rng = ctx.rng
    docs = list(ERRSETS)
    if not ctx.quick:
        i = 0
        steps = [(c, d, f) for c in range(3) for d in docs for f in (True,)]
        for a, b in itertools.product(steps, repeat=2):
            for depth in range(1, NCONF + 1):
                if depth in (7, 8) and a[0] != 0:
                    continue
                i += 1
                if ctx.mine(i):
                    yield depth, [a, b]
    for k in range(6 if ctx.quick else 40):
        depth = (ctx.shard + k) % NCONF + 1
        length = 4 if ctx.quick else rng.randint(5, 6)
        h = []
        for _ in range(length):
            c = rng.randrange(3)
            h.append((c, rng.choice(docs), rng.random() < 0.8))
        # make sure the classic shapes occur: A, B, A and A, B with different error sets
        if k == 0:
            h = [(0, "d404", True), (1, "d422_500", True), (0, "d404", True), (2, "dnone", True)]
        if depth in (7, 8):
            # the owner of the embedded core comes first; afterwards every client - the owner too - is generated, regenerated
            # and force-regenerated freely (forcing the owner clears its package directory, the shared core inside it included)
            h = [(0, rng.choice(docs), True)] + h[1:]
            if k == 1:
                h = [(0, "d404", True), (1, "d422_500", True), (0, "d404_409_503", True), (2, "dnone", True)]
        yield depth, h


def run_shard(ctx: Ctx) -> None:
    install_contract()
    for i, (depth, h) in enumerate(histories(ctx)):
        run_history(ctx, depth, h, ctx.shard * 1000 + i)


def replay(ctx: Ctx, file: dict) -> None:
    install_contract()
    c = file["case"]
    clients = CLIENTS[c["depth"]]
    h = [(clients.index(x[0]), x[1], x[2]) for x in c["history"]]
    run_history(ctx, c["depth"], h, 1)
