"""Enumerator of schema multigraphs (nodes x edge kinds x declaration orders x naming schemes) for C02/C08.

A graph on N nodes assigns one edge kind to every ordered pair (i, j), self-pairs included.
The document is built independently of the generator; `expected()` derives what every node must look like.
"""
from __future__ import annotations

import itertools
from typing import Any, Iterator

EDGE_KINDS = ["none", "ref", "array_ref", "inline_obj", "array_inline", "addl_props", "one_of", "all_of"]

NAMING = {
    "plain": ["Alpha", "Beta", "Gamma", "Delta", "Epsi", "Zeta"],
    "prefix": ["User", "UserGroup", "UserGroupRole", "UserG", "Us", "UserGroupRoleX"],
    "propcase": ["Node", "Edge", "Graph", "Leaf", "Tree", "Root"],  # property names equal the schema name up to case
    # the cycle tracker keys decisions on substrings of schema names ('Item', 'Property', 'Children'): use such names too
    "itemish": ["Order", "LineItem", "Children", "ChildrenItem", "OrderProperty", "ItemList"],
    # declared names that class-name derivation REWRITES (acronym run, snake_case, digit group, punctuation): the registry of
    # parsed schemas is keyed by derived names while references spell the declared one
    "rewritten": ["HTTPAlpha", "beta_node", "GammaV2", "XMLDelta.v1", "epsi-lon", "ZETA"],
}


def prop_name(kind: str, target: str, scheme: str) -> str:
    if scheme == "propcase" and kind in ("ref", "inline_obj"):
        return target[0].lower() + target[1:]  # e.g. property 'edge' -> schema 'Edge'
    return {"ref": "to", "array_ref": "many", "inline_obj": "inl", "array_inline": "inls",
            "addl_props": "map", "one_of": "uni"}[kind] + target


def build_doc(n: int, edges: dict[tuple[int, int], str], order: tuple[int, ...], scheme: str,
              openapi31: bool = False) -> tuple[dict, dict]:
    """Return (document, expectation). expectation[name] = {"props": {json key: (kind, required, target)}}."""
    names = NAMING[scheme][:n]
    schemas: dict[str, Any] = {}
    expect: dict[str, Any] = {}
    for i in range(n):
        me = names[i]
        props: dict[str, Any] = {"id": {"type": "integer"}, "label": {"type": "string"}}
        exp: dict[str, tuple] = {"id": ("integer", True, None), "label": ("string", False, None)}
        parents = []
        for j in range(n):
            k = edges.get((i, j), "none")
            if k == "none":
                continue
            tgt = names[j]
            ref = {"$ref": f"#/components/schemas/{tgt}"}
            pn = prop_name(k, tgt, scheme) if k != "all_of" else ""
            if k == "ref":
                props[pn] = ref
                exp[pn] = ("ref", False, tgt)
            elif k == "array_ref":
                props[pn] = {"type": "array", "items": ref}
                exp[pn] = ("array_of_ref", False, tgt)
            elif k == "inline_obj":
                props[pn] = {"type": "object", "properties": {"x": ref, "n": {"type": "integer"}}}
                exp[pn] = ("inline_object", False, tgt)
            elif k == "array_inline":
                item: dict[str, Any] = {"type": ["object", "null"] if openapi31 else "object",
                                        "properties": {"x": ref, "n": {"type": "integer"}}}
                props[pn] = {"type": "array", "items": item}
                exp[pn] = ("array_of_inline", False, tgt)
            elif k == "addl_props":
                props[pn] = {"type": "object", "additionalProperties": ref}
                exp[pn] = ("map_of_ref", False, tgt)
            elif k == "one_of":
                props[pn] = {"oneOf": [ref, {"type": "string"}]}
                exp[pn] = ("union", False, tgt)
            elif k == "all_of":
                parents.append(tgt)
        own = {"type": "object", "required": ["id"], "properties": props}
        if parents:
            node = {"allOf": [{"$ref": f"#/components/schemas/{p}"} for p in parents] + [own]}
        else:
            node = own
        schemas[me] = node
        expect[me] = {"own": exp, "parents": parents, "tighten": []}
    # a later allOf member may tighten a property introduced by an earlier member: the child's own part requires the
    # first property that only its (first) parent declares
    for i in range(n):
        me = names[i]
        for pn in expect[me]["parents"][:1]:
            only_parent = [k for k in expect[pn]["own"] if k not in expect[me]["own"]]
            if only_parent and pn != me:
                key = only_parent[0]
                schemas[me]["allOf"][-1]["required"] = ["id", key]
                expect[me]["tighten"].append(key)
    ordered = {names[i]: schemas[names[i]] for i in order}
    doc = {"openapi": "3.1.0" if openapi31 else "3.0.3", "info": {"title": "G", "version": "1"}, "paths": {},
           "components": {"schemas": ordered}}
    return doc, expect


def resolve_expected(expect: dict) -> dict[str, dict[str, tuple] | None]:
    """Reference resolver: own + allOf-inherited properties, cycle-safe. None when inheritance is cyclic (undefined)."""
    out: dict[str, dict[str, tuple] | None] = {}

    def anc(name: str, seen: tuple[str, ...]) -> dict[str, tuple] | None:
        if name in seen:
            return None
        res: dict[str, tuple] = {}
        for p in expect[name]["parents"]:
            sub = anc(p, seen + (name,))
            if sub is None:
                return None
            res.update(sub)
        for key, (k, req, t) in expect[name]["own"].items():
            prev = res.get(key)
            # allOf is a conjunction: a property that an ancestor part requires stays required when a descendant declares it again
            res[key] = (k, bool(req or (prev and prev[1])), t)
        for key in expect[name].get("tighten", []):
            if key in res:
                k, _, t = res[key]
                res[key] = (k, True, t)
        return res

    for name in expect:
        out[name] = anc(name, ())
    return out


def has_cycle(n: int, edges: dict[tuple[int, int], str], kinds: set[str] | None = None) -> bool:
    adj = {i: [j for j in range(n) if edges.get((i, j), "none") != "none"
               and (kinds is None or edges[(i, j)] in kinds)] for i in range(n)}
    color = [0] * n

    def dfs(u: int) -> bool:
        color[u] = 1
        for v in adj[u]:
            if color[v] == 1 or (color[v] == 0 and dfs(v)):
                return True
        color[u] = 2
        return False

    return any(color[i] == 0 and dfs(i) for i in range(n))


def nodes_on_cycles(n: int, edges: dict[tuple[int, int], str]) -> set[int]:
    adj = {i: [j for j in range(n) if edges.get((i, j), "none") != "none"] for i in range(n)}
    res = set()
    for s in range(n):
        seen, stack = set(), list(adj[s])
        while stack:
            u = stack.pop()
            if u == s:
                res.add(s)
                break
            if u not in seen:
                seen.add(u)
                stack.extend(adj[u])
    return res


def all_graphs(n: int, max_edges: int | None = None) -> Iterator[dict[tuple[int, int], str]]:
    pairs = [(i, j) for i in range(n) for j in range(n)]
    if max_edges is None:
        for combo in itertools.product(range(len(EDGE_KINDS)), repeat=len(pairs)):
            yield {p: EDGE_KINDS[k] for p, k in zip(pairs, combo) if k}
    else:
        for m in range(0, max_edges + 1):
            for sel in itertools.combinations(pairs, m):
                for kinds in itertools.product(range(1, len(EDGE_KINDS)), repeat=m):
                    yield {p: EDGE_KINDS[k] for p, k in zip(sel, kinds)}


def random_graph(rng, n: int, density: float = 0.35) -> dict[tuple[int, int], str]:
    e = {}
    for i in range(n):
        for j in range(n):
            if rng.random() < density:
                e[(i, j)] = rng.choice(EDGE_KINDS[1:])
    return e


def edges_key(edges: dict[tuple[int, int], str]) -> str:
    return ";".join(f"{i}>{j}:{k}" for (i, j), k in sorted(edges.items()))


def wide_doc(shared: str = "audit_info", nrecords: int = 24, refs_each: int = 8) -> tuple[dict, dict]:
    """A flat, acyclic document that is merely LARGE: one shared schema referred to nrecords x refs_each times (a few hundred
    re-encounters of a finished schema), then more schemas. Returns (document, expectation name -> {key: (kind, required, target)})."""
    ref = {"$ref": f"#/components/schemas/{shared}"}
    schemas: dict[str, Any] = {shared: {"type": "object", "required": ["who"], "properties": {"who": {"type": "string"}, "rev": {"type": "integer"}}}}
    resolved: dict[str, Any] = {shared: {"who": ("string", True, None), "rev": ("integer", False, None)}}
    paths: dict[str, Any] = {}
    for k in range(nrecords):
        name = f"Record{k:02d}"
        props: dict[str, Any] = {"id": {"type": "integer"}}
        exp: dict[str, tuple] = {"id": ("integer", True, None)}
        for j in range(refs_each):
            props[f"a{j}"] = ref if j % 2 == 0 else {"type": "array", "items": ref}
            exp[f"a{j}"] = ("ref", False, shared) if j % 2 == 0 else ("array_of_ref", False, shared)
        schemas[name] = {"type": "object", "required": ["id"], "properties": props}
        resolved[name] = exp
        paths[f"/op{k}/records"] = {"post": {"operationId": f"create_record_{k}", "tags": ["records"], "requestBody": {"required": True, "content": {
            "application/json": {"schema": {"$ref": f"#/components/schemas/{name}"}}}}, "responses": {"201": {"description": "ok", "content": {
                "application/json": {"schema": {"$ref": f"#/components/schemas/{name}"}}}}}}}
    doc = {"openapi": "3.0.3", "info": {"title": "Wide", "version": "1"}, "paths": paths, "components": {"schemas": schemas}}
    return doc, resolved

