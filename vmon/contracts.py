"""icontract contracts attached from the harness to the repository's real name-derivation functions.

Two modes:
  raising  (function-level workloads): the contract raises NameContractBroken, the harness catches it;
  in vivo  (while a whole generation runs): the condition only RECORDS and returns True, so the monitor never
           changes the behaviour of what it observes.
Every contract counts its evaluations; zero evaluations => the deciding monitor was never reached.
"""
from __future__ import annotations

import keyword
from typing import Any, Callable

from . import common


class NameContractBroken(Exception):
    pass


class State:
    def __init__(self) -> None:
        self.evals: dict[str, int] = {}
        self.events: list[tuple[str, str, str, str]] = []  # (function, kind, input, result)
        self.raising = True


STATE = State()


def classify(result: Any) -> str | None:
    if not isinstance(result, str):
        return "not_str"
    if result == "":
        return "empty"
    if not result.isidentifier():
        return "not_identifier"
    if keyword.iskeyword(result):
        return "keyword"
    return None


def _mk_condition(fname: str, argname: str) -> Callable[..., bool]:
    # icontract matches condition parameters by NAME against the decorated function's parameters.
    src = f"""
def valid_identifier({argname}, result):
    STATE.evals[{fname!r}] = STATE.evals.get({fname!r}, 0) + 1
    bad = classify(result)
    if bad is None:
        return True
    if len(STATE.events) < 5000:
        STATE.events.append(({fname!r}, bad, repr({argname}), repr(result)))
    return not STATE.raising
"""
    ns: dict[str, Any] = {"STATE": STATE, "classify": classify}
    exec(src, ns)
    return ns["valid_identifier"]


TARGETS = [
    ("sanitize_class_name", "name"), ("sanitize_module_name", "name"), ("sanitize_method_name", "name"),
    ("sanitize_tag_class_name", "tag"), ("sanitize_tag_attr_name", "tag"),
]


def install(raising: bool) -> dict[str, Callable[..., Any]]:
    """Attach the contracts; returns name -> original function."""
    common.use_repo()
    common.use_deps()
    import icontract
    from pyopenapi_gen.core.utils import NameSanitizer
    from pyopenapi_gen.visit.model.enum_generator import EnumGenerator

    STATE.raising = raising
    originals: dict[str, Callable[..., Any]] = {}
    for fname, arg in TARGETS:
        orig = getattr(NameSanitizer, fname)
        if getattr(orig, "_vmon_wrapped", False):
            continue
        originals[fname] = orig
        wrapped = icontract.ensure(_mk_condition(fname, arg), error=NameContractBroken)(orig)
        wrapped._vmon_wrapped = True  # type: ignore[attr-defined]
        setattr(NameSanitizer, fname, staticmethod(wrapped))
    # enum member names (methods; 'self' is a parameter the condition does not need)
    for fname, arg in (("_generate_member_name_for_string_enum", "value"), ("_generate_member_name_for_integer_enum", "value")):
        orig = getattr(EnumGenerator, fname)
        if getattr(orig, "_vmon_wrapped", False):
            continue
        originals[fname] = orig
        wrapped = icontract.ensure(_mk_condition(fname, arg), error=NameContractBroken)(orig)
        wrapped._vmon_wrapped = True  # type: ignore[attr-defined]
        setattr(EnumGenerator, fname, wrapped)
    return originals
