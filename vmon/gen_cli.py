"""Fresh-process generation: python -m vmon.gen_cli '<json args>'  -> prints one JSON line {ok, error, files}.
Used where the process itself is the variable under test (PYTHONHASHSEED, clock, warm vs fresh)."""
import json
import sys
from pathlib import Path


def main() -> None:
    a = json.loads(sys.argv[1])
    shift = a.get("clock_shift")
    if shift:
        import time as _t
        import datetime as _dt

        real = _t.time
        _t.time = lambda: real() + shift  # type: ignore[assignment]

        class _D(_dt.datetime):
            @classmethod
            def now(cls, tz=None):  # type: ignore[override]
                return super().now(tz) + _dt.timedelta(seconds=shift)

        _dt.datetime = _D  # type: ignore[misc]
    enc = a.get("default_text_encoding")
    if enc:
        # emulate a host whose default text encoding is not UTF-8 (a latin-1 locale, Windows code pages): every text-mode
        # open() that does not name an encoding gets this one - exactly what the interpreter would do on such a host
        import builtins
        import io

        real_open = io.open

        def host_open(file, mode="r", buffering=-1, encoding=None, errors=None, newline=None, closefd=True, opener=None):
            if "b" not in mode and encoding in (None, "locale"):
                encoding = enc
            return real_open(file, mode, buffering, encoding, errors, newline, closefd, opener)

        io.open = builtins.open = host_open  # type: ignore[assignment]
    from vmon import genrun

    r = genrun.generate({}, Path(a["root"]), a["pkg"], a.get("core"), force=a.get("force", True), strategy=a.get("strategy", "operationId"),
                        spec_path=Path(a["spec"]))
    print(json.dumps({"ok": r.ok, "error": r.error, "error_type": r.error_type, "nfiles": len(r.files)}))


if __name__ == "__main__":
    main()
