"""Schema-conforming JSON instance generator over the expectation model of specgen (no repository code involved)."""
from __future__ import annotations

import base64
from typing import Any

DT = ["2024-01-02T03:04:05+00:00", "2023-12-31T23:59:59+02:00", "2020-02-29T00:00:00", "2024-06-01T12:30:00.250000+00:00"]
DATES = ["2024-02-29", "1999-12-31", "2030-01-01"]
STRS = ["a", "", "héllo wörld", "x y", "日本", "null", "0", "line1\nline2", "quote\"s"]


def prim(rng, e: dict) -> Any:
    k, f = e["kind"], e.get("format")
    if k == "string":
        if f == "date-time":
            return rng.choice(DT)
        if f == "date":
            return rng.choice(DATES)
        if f == "email":
            return "user@example.test"
        if f == "uri":
            return "https://example.test/a?b=c"
        if f == "hostname":
            return "host.example.test"
        if f == "byte":
            return base64.b64encode(rng.choice([b"", b"abc", b"\x00\xff", b"\xfb\xff\xfe", b"<<???>>"])).decode()
        if f == "uuid":
            return "12345678-1234-5678-1234-567812345678"
        if f == "time":
            return "12:34:56"
        if f == "binary":
            return base64.b64encode(rng.choice([b"bin\x00", b"\xfb\xff", b"\xff\xff\xff", b"<<???>>"])).decode()
        return rng.choice(STRS)
    if k == "integer":
        return rng.choice([0, 1, -7, 2 ** 33])
    if k == "number":
        return rng.choice([0.5, -2.25, 3.0, 1e6])
    if k == "boolean":
        return rng.random() < 0.5
    raise AssertionError(e)


def instance(rng, e: dict, sexp: dict, mode: str = "random", depth: int = 0) -> Any:
    """mode: 'min' required only, 'max' everything, 'random' random subsets of the optionals, 'nulls' explicit nulls where nullable."""
    k = e["kind"]
    if k in ("string", "integer", "number", "boolean"):
        if e.get("nullable") and mode == "nulls":
            return None
        return prim(rng, e)
    if e.get("nullable") and (mode == "nulls" or (mode == "random" and rng.random() < 0.25)):
        return None      # any type expression may be nullable (richgen)
    if k == "prim_union":
        return prim(rng, {"kind": rng.choice(e["of"]), "format": None})
    if k == "free_form":
        return free_form(rng, e.get("variant", "any"), depth) if mode != "max" else FREE[0]
    if k == "enum_inline":
        return rng.choice(e["values"])
    if k in ("ref", "ref_enum", "ref_alias"):
        return named(rng, e["target"], sexp, mode, depth + 1)
    if k == "array":
        n = 0 if depth > 3 else (rng.randint(0, 2) if mode != "max" else 2)
        return [instance(rng, e["items"], sexp, mode, depth + 1) for _ in range(n)]
    if k == "map":
        n = 0 if depth > 3 else (rng.randint(0, 2) if mode != "max" else 2)
        out = {f"k{i}": instance(rng, e["values"], sexp, mode, depth + 1) for i in range(n)}
        if e["values"].get("nullable") and mode in ("nulls", "random", "max"):
            out["knull"] = None      # a null ENTRY of a map is data, not an absent optional property
        return out
    if k == "inline_object":
        return obj(rng, e["props"], sexp, mode, depth + 1)
    if k == "union":
        v = e["variants"][0 if mode in ("min", "max") else rng.randrange(len(e["variants"]))]
        return named(rng, v, sexp, mode, depth + 1)
    if k == "object":
        return {}
    raise AssertionError(e)


FREE = [{"a": 1, "b": [1, {"c": None}], "d": "x"}, {}, {"nested": {"deep": {"deeper": [True, 2.5, "s"]}}}, {"camelKey": "v", "snake_key": 0, "kebab-key": False}]


def free_form(rng, variant: str, depth: int) -> Any:
    """Free-form positions: any JSON object ({"type": "object"} / additionalProperties: true) or any JSON value ({})."""
    if variant == "any":
        return rng.choice(FREE + [1, "text", 2.5, True, [1, "two", {"three": 3}]])
    return rng.choice(FREE)


def obj(rng, props: dict, sexp: dict, mode: str, depth: int) -> dict:
    out = {}
    for name, pe in props.items():
        if pe.get("self"):
            # self references: at most one level
            if mode == "max" and depth < 2 and pe["kind"] == "ref":
                out[name] = named(rng, pe["target"], sexp, "min", depth + 2)
            elif mode == "max" and depth < 2 and pe["kind"] == "array":
                out[name] = [named(rng, pe["items"]["target"], sexp, "min", depth + 2)]
            continue
        # properties with a declared default are always given explicitly: a model instance carries the default anyway,
        # so "absent" and "default" are indistinguishable on the wire and the comparison would be ambiguous
        include = pe.get("required") or "default" in pe or mode == "max" or (mode in ("random", "nulls") and rng.random() < 0.5)
        if depth > 4 and not pe.get("required") and "default" not in pe:
            include = False
        if include:
            out[name] = instance(rng, pe, sexp, mode, depth)
    return out


def named(rng, name: str, sexp: dict, mode: str = "random", depth: int = 0) -> Any:
    e = sexp[name]
    k = e["kind"]
    if k == "object":
        out = obj(rng, e["props"], sexp, mode, depth)
        if e.get("extras") and mode in ("max", "random"):
            # keys beyond the declared properties, allowed by the schema's additionalProperties
            out["extraOne"] = instance(rng, e["extras"], sexp, mode, depth + 1)
            out["extra_two"] = instance(rng, e["extras"], sexp, mode, depth + 1)
        return out
    if k == "map_alias":
        return instance(rng, {"kind": "map", "values": e["values"]}, sexp, mode, depth)
    if k == "enum":
        return rng.choice(e["values"])
    if k == "array_alias":
        return [instance(rng, e["items"], sexp, mode, depth + 1) for _ in range(rng.randint(0, 2))]
    if k == "prim_alias":
        return prim(rng, e["prim"])
    raise AssertionError(e)


def nontrivial(v: Any) -> bool:
    if isinstance(v, dict):
        return any(isinstance(x, (dict, list)) or nontrivial(x) for x in v.values()) or any(not k.isidentifier() or k != k.lower() for k in v)
    if isinstance(v, list):
        return True
    return False
