"""Audit-hook file-system event recorder with an online containment policy, a safety fence and tree snapshots.

One hook per process (audit hooks cannot be removed); `Monitor.active` switches recording on and off.
Events are judged by EFFECT: e.g. os.mkdir on an existing directory (what makedirs(exist_ok=True) issues for every
ancestor before EEXIST) changes nothing and is classified 'noop' at event time.
"""
from __future__ import annotations

import errno
import hashlib
import os
import sys
from pathlib import Path
from typing import Any

WRITE_FLAGS = os.O_WRONLY | os.O_RDWR | os.O_CREAT | os.O_TRUNC | os.O_APPEND


class FenceViolation(BaseException):
    """Raised by the hook when a destructive operation targets a path outside the run's scratch root."""


class Monitor:
    def __init__(self) -> None:
        self.active = False
        self.fence_root: str | None = None
        self.project_root: str | None = None
        self.events: list[tuple[str, str, str]] = []      # (kind, path, classification)
        self.enospc_at: int | None = None                  # raise OSError(ENOSPC) at the k-th write-open under the watched root
        self.write_opens = 0
        self.fence_hits: list[str] = []
        self.installed = False

    def install(self) -> None:
        if not self.installed:
            sys.addaudithook(self._hook)
            self.installed = True

    def start(self, project_root: Path, fence_root: Path, enospc_at: int | None = None, watch_root: Path | None = None) -> None:
        self.project_root = str(project_root)
        self.fence_root = str(fence_root)
        self.watch_root = str(watch_root or project_root)
        self.events = []
        self.write_opens = 0
        self.enospc_at = enospc_at
        self.fence_hits = []
        self.enospc_path = None
        self.active = True

    def stop(self) -> list[tuple[str, str, str]]:
        self.active = False
        return self.events

    # ------------------------------------------------------------------
    def _abs(self, p: Any) -> str | None:
        if isinstance(p, int) or p is None:
            return None
        try:
            return os.path.abspath(os.fspath(p))
        except TypeError:
            return None

    def _under(self, p: str, root: str | None) -> bool:
        return root is not None and (p == root or p.startswith(root + os.sep))

    def _record(self, kind: str, path: Any, destructive: bool = True, dir_fd: Any = None) -> None:
        if isinstance(dir_fd, int) and dir_fd >= 0 and not os.path.isabs(os.fspath(path) if not isinstance(path, int) else "/"):
            # shutil.rmtree walks with directory file descriptors: the name is relative to dir_fd, not to the cwd
            try:
                path = os.path.join(os.readlink(f"/proc/self/fd/{dir_fd}"), os.fspath(path))
            except OSError:
                return
        p = self._abs(path)
        if p is None:
            return
        if destructive and not self._under(p, self.fence_root):
            # safety: never let a workload touch anything outside its scratch root
            if not p.startswith(("/dev/", "/proc/")):
                self.fence_hits.append(f"{kind} {p}")
                raise FenceViolation(f"{kind} on {p} is outside the scratch root {self.fence_root}")
        if self._under(p, self.project_root):
            cls = "effect"
            if kind == "mkdir" and os.path.isdir(p):
                cls = "noop"     # makedirs(exist_ok=True) asks for existing ancestors; the call fails with EEXIST
            self.events.append((kind, p, cls))

    def _hook(self, event: str, args: tuple) -> None:
        if not self.active:
            return
        try:
            if event == "open":
                path, mode, flags = args[0], args[1], args[2]
                if isinstance(flags, int) and flags & WRITE_FLAGS:
                    p = self._abs(path)
                    if p and self._under(p, self.watch_root) and self.enospc_at is not None:
                        self.write_opens += 1
                        if self.write_opens == self.enospc_at:
                            self.enospc_path = p
                            raise OSError(errno.ENOSPC, "No space left on device (injected)", p)
                    elif p and self._under(p, self.watch_root):
                        self.write_opens += 1
                    self._record("write_open", path)
            elif event == "os.remove":
                self._record("remove", args[0], dir_fd=args[1] if len(args) > 1 else None)
            elif event == "os.rename":
                self._record("rename_from", args[0])
                self._record("rename_to", args[1])
            elif event == "os.mkdir":
                self._record("mkdir", args[0], dir_fd=args[2] if len(args) > 2 else None)
            elif event == "os.rmdir":
                self._record("rmdir", args[0], dir_fd=args[1] if len(args) > 1 else None)
            elif event == "os.truncate":
                self._record("truncate", args[0])
            elif event in ("os.chmod", "os.utime", "os.chown"):
                self._record(event.split(".")[1], args[0])
            elif event in ("os.symlink", "os.link"):
                self._record(event.split(".")[1], args[1])
            elif event == "shutil.rmtree":
                self._record("rmtree", args[0])
            elif event in ("shutil.copyfile", "shutil.copytree", "shutil.move", "shutil.copymode", "shutil.copystat"):
                self._record(event.split(".")[1] + "_to", args[1])
        except (FenceViolation, OSError):
            raise
        except Exception:
            pass


MON = Monitor()


def snapshot(root: Path) -> dict[str, tuple]:
    out: dict[str, tuple] = {}
    for p in sorted(root.rglob("*")):
        try:
            st = p.lstat()
        except OSError:
            continue
        rel = str(p.relative_to(root))
        if p.is_dir():
            out[rel] = ("dir",)
        elif p.is_file():
            out[rel] = ("file", st.st_size, hashlib.sha256(p.read_bytes()).hexdigest(), st.st_mtime_ns)
    return out


def snapshot_diff(a: dict, b: dict) -> list[str]:
    out = []
    for k in sorted(set(a) | set(b)):
        if k not in b:
            out.append(f"removed {k}")
        elif k not in a:
            out.append(f"created {k}")
        elif a[k] != b[k]:
            what = "content" if a[k][:3] != b[k][:3] else "mtime"
            out.append(f"modified({what}) {k}")
    return out
