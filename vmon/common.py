"""Shared plumbing for the monitoring framework: repo path, scratch, recorder, hashing."""
from __future__ import annotations

import hashlib
import json
import os
import random
import shutil
import sys
import tempfile
import time
from pathlib import Path
from typing import Any

VERIF_ROOT = Path(__file__).resolve().parent.parent
REPO_ROOT = Path(os.environ.get("VERIF_REPO_ROOT", "/repo")).resolve()
REPO_SRC = REPO_ROOT / "src"
PY = "/venv/bin/python"
GUARD = "PYOPENAPI_GEN_VERIF"


def use_repo() -> None:
    """Put the repository's current working tree first on sys.path and check it is what gets imported."""
    p = str(REPO_SRC)
    if sys.path[0] != p:
        try:
            sys.path.remove(p)
        except ValueError:
            pass
        sys.path.insert(0, p)
    import pyopenapi_gen  # noqa

    f = Path(pyopenapi_gen.__file__).resolve()
    if REPO_SRC not in f.parents:
        raise RuntimeError(f"pyopenapi_gen imported from {f}, expected under {REPO_SRC}")


def use_deps() -> None:
    """icontract/deal live in /verif/.deps, appended AFTER site-packages (never shadow cattrs' typing_extensions)."""
    d = str(VERIF_ROOT / ".deps")
    if d not in sys.path:
        sys.path.append(d)


def ensure_deps() -> bool:
    d = VERIF_ROOT / ".deps"
    if (d / "icontract").is_dir():
        return True
    import subprocess

    r = subprocess.run(
        [PY, "-m", "pip", "install", "-q", "--no-index", "--find-links", "/opt/veriftools/wheels",
         "--target", str(d), "icontract", "deal"],
        capture_output=True, text=True,
    )
    return r.returncode == 0 and (d / "icontract").is_dir()


def tree_hash(root: Path = REPO_SRC) -> str:
    h = hashlib.sha256()
    for p in sorted(root.rglob("*")):
        if p.is_file() and "__pycache__" not in p.parts:
            h.update(str(p.relative_to(root)).encode())
            h.update(b"\0")
            h.update(p.read_bytes())
            h.update(b"\0")
    return h.hexdigest()


def chash(obj: Any) -> str:
    return hashlib.sha256(json.dumps(obj, sort_keys=True, default=str).encode()).hexdigest()[:16]


class Scratch:
    """One scratch directory per process, outside /repo and /verif, removed at exit."""

    def __init__(self, tag: str) -> None:
        base = os.environ.get("VERIF_SCRATCH_BASE", "/tmp")
        self.root = Path(tempfile.mkdtemp(prefix=f"vmon-{tag}-", dir=base))
        self.n = 0
        (self.root / "tmp").mkdir()

    def new(self, name: str = "d") -> Path:
        self.n += 1
        p = self.root / f"{name}{self.n}"
        p.mkdir(parents=True)
        return p

    def tmpdir(self) -> str:
        return str(self.root / "tmp")

    def cleanup(self) -> None:
        shutil.rmtree(self.root, ignore_errors=True)


def sweep_stale_scratch(max_age_s: float = 6 * 3600) -> None:
    base = Path(os.environ.get("VERIF_SCRATCH_BASE", "/tmp"))
    now = time.time()
    for p in base.glob("vmon-*"):
        try:
            if now - p.stat().st_mtime > max_age_s:
                shutil.rmtree(p, ignore_errors=True)
        except OSError:
            pass


class Rec:
    """What a shard observed. Everything in here is measured by the run."""

    MAX_SAMPLES = 4
    MAX_VIOL = 4000
    MAX_PER_SIG = 60

    def __init__(self) -> None:
        self.evaluations = 0
        self.distinct: set[str] = set()
        self.nontrivial: set[str] = set()
        self.counters: dict[str, int] = {}
        self.violations: list[dict[str, Any]] = []
        self.samples: list[Any] = []
        self.inconclusive: list[str] = []
        self.sets: dict[str, set[str]] = {}
        self.sigcounts: dict[str, int] = {}

    def case(self, descriptor: Any, nontrivial: bool = True, n: int = 1) -> str:
        h = descriptor if isinstance(descriptor, str) and len(descriptor) == 16 else chash(descriptor)
        self.evaluations += n
        self.distinct.add(h)
        if nontrivial:
            self.nontrivial.add(h)
        return h

    def count(self, name: str, n: int = 1) -> None:
        self.counters[name] = self.counters.get(name, 0) + n

    def seen(self, setname: str, value: Any) -> None:
        self.sets.setdefault(setname, set()).add(str(value))

    def sample(self, obj: Any) -> None:
        if len(self.samples) < self.MAX_SAMPLES:
            self.samples.append(obj)

    def violation(self, sig: str, features: list[str] | set[str], case: Any, detail: str = "") -> None:
        self.count("violations_raw")
        self.sigcounts[sig] = self.sigcounts.get(sig, 0) + 1   # uncapped: how often each signature was observed
        # cap per signature (so a frequent known finding cannot crowd out a rare new violation), and overall
        self._per_sig = getattr(self, "_per_sig", {})
        self._per_sig[sig] = self._per_sig.get(sig, 0) + 1
        if self._per_sig[sig] <= self.MAX_PER_SIG and len(self.violations) < self.MAX_VIOL:
            self.violations.append(
                {"sig": sig, "features": sorted(set(features)), "case": case, "detail": detail[:2000]}
            )

    def to_json(self) -> dict[str, Any]:
        return {
            "evaluations": self.evaluations,
            "distinct": sorted(self.distinct),
            "nontrivial": sorted(self.nontrivial),
            "counters": self.counters,
            "violations": self.violations,
            "samples": self.samples,
            "inconclusive": self.inconclusive,
            "sets": {k: sorted(v) for k, v in self.sets.items()},
            "sigcounts": self.sigcounts,
        }


class Ctx:
    def __init__(self, prop: str, tier: str, seed: int, shard: int, nshards: int) -> None:
        self.prop, self.tier, self.seed, self.shard, self.nshards = prop, tier, seed, shard, nshards
        self.rng = random.Random(f"{prop}-{seed}-{shard}")
        self.rec = Rec()
        self.scratch = Scratch(f"{prop}-{shard}")
        self.deadline = time.time() + float(os.environ.get("VERIF_SHARD_BUDGET_S", "1e9"))

    def mine(self, i: int) -> bool:
        """Round-robin assignment of enumerated case i to this shard."""
        return i % self.nshards == self.shard

    @property
    def quick(self) -> bool:
        return self.tier == "quick"
