#!/bin/bash
# tools/confirm_seed.sh <PROP> <name> <srcdir>   confirm a seeded change independently and keep it under /verif/seeded/<name>/
# srcdir holds patch.diff, demo.py, notes.md.  Uses a scratch worktree of /repo HEAD under /tmp, removed afterwards.
set -u
PROP=$1; NAME=$2; SRC=$3
WT=/tmp/confirm-$NAME-wt
git -C /repo worktree remove --force $WT 2>/dev/null
git -C /repo worktree add --detach $WT HEAD >/dev/null 2>&1 || exit 2
if ! git -C $WT apply $SRC/patch.diff 2>/tmp/confirm-$NAME.err; then
  if ! git -C $WT apply --3way $SRC/patch.diff 2>>/tmp/confirm-$NAME.err; then echo "PATCH DOES NOT APPLY"; cat /tmp/confirm-$NAME.err; git -C /repo worktree remove --force $WT; exit 3; fi
  git -C $WT diff HEAD > /tmp/confirm-$NAME.rebased.diff; REB=1
fi
export TMPDIR=/tmp/confirm-$NAME-tmp; mkdir -p $TMPDIR
SUITE=$(python3 /verif/tools/suite.py $WT | head -3)
echo "suite(with change): $SUITE"
PYTHONPATH=$WT/src timeout 600 /venv/bin/python $SRC/demo.py >/tmp/confirm-$NAME.with.log 2>&1; RC_WITH=$?
PYTHONPATH=/repo/src timeout 600 /venv/bin/python $SRC/demo.py >/tmp/confirm-$NAME.without.log 2>&1; RC_WITHOUT=$?
echo "demo rc with change=$RC_WITH without=$RC_WITHOUT"
D=/verif/seeded/$NAME; mkdir -p $D
if [ "${REB:-0}" = 1 ]; then cp /tmp/confirm-$NAME.rebased.diff $D/patch.diff; cp $SRC/patch.diff $D/patch.orig-pinned.diff; else cp $SRC/patch.diff $D/patch.diff; fi
cp $SRC/demo.py $D/; cp $SRC/notes.md $D/ 2>/dev/null
python3 - "$PROP" "$NAME" "$SUITE" "$RC_WITH" "$RC_WITHOUT" "$D" <<'PY'
import json,sys
prop,name,suite,rw,rwo,d=sys.argv[1:]
m={"property":prop,"name":name,"origin":"independent sub-agent given only the property text and a scratch worktree",
   "confirmed":{"suite_with_change":suite,"demo_rc_with_change":int(rw),"demo_rc_without_change(/repo HEAD)":int(rwo),
                "how":"tools/confirm_seed.sh: scratch worktree of /repo HEAD + patch; tools/suite.py (pinned suite vs BASELINE stable_pass); demo.py with PYTHONPATH=<worktree>/src and PYTHONPATH=/repo/src"},
   "needs_to_manifest":"see notes.md","caught_by":"(filled in after running the checks)"}
json.dump(m,open(d+"/meta.json","w"),indent=1)
PY
git -C /repo worktree remove --force $WT; rm -rf $TMPDIR
