#!/usr/bin/env python3
"""Run the repository's pinned suite (guard OFF) on a tree and compare with /root/.vp/BASELINE.json.
usage: tools/suite.py [repo_root]   (default /repo); exit 0 iff every baseline stable-pass test passes."""
import ast, json, os, subprocess, sys, tempfile, xml.etree.ElementTree as ET
root = sys.argv[1] if len(sys.argv) > 1 else "/repo"
b = json.load(open("/root/.vp/BASELINE.json"))
stable = b["stable_pass"]
if isinstance(stable, str):
    stable = ast.literal_eval(stable)
stable = set(stable)
tmp = tempfile.mkdtemp(prefix="suite-")
env = {k: v for k, v in os.environ.items() if k != "PYOPENAPI_GEN_VERIF"}
env["TMPDIR"] = tmp
xml = os.path.join(tmp, "junit.xml")
n = os.environ.get("SUITE_JOBS", "16")
r = subprocess.run(["/venv/bin/python", "-m", "pytest", "-q", "-p", "no:cacheprovider", "--timeout=900",
                    "--continue-on-collection-errors", "-n", n, f"--junitxml={xml}"], cwd=root, env=env,
                   capture_output=True, text=True)
passed, failed = set(), set()
for tc in ET.parse(xml).getroot().iter("testcase"):
    tid = f"{tc.get('classname')}::{tc.get('name')}"
    bad = any(c.tag in ("failure", "error") for c in tc)
    skipped = any(c.tag == "skipped" for c in tc)
    if bad: failed.add(tid)
    elif not skipped: passed.add(tid)
missing = sorted(stable - passed)
print(f"passed={len(passed)} failed={len(failed)} baseline_stable={len(stable)} baseline_missing={len(missing)}")
for m in missing[:40]: print("  NOT PASSING:", m)
import shutil; shutil.rmtree(tmp, ignore_errors=True)
sys.exit(1 if missing else 0)
