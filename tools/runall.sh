#!/bin/bash
# tools/runall.sh [tier] [seed]: run every registered check, print one summary line each
cd "$(dirname "$0")/.."
TIER=${1:-quick}; SEED=${2:-0}
for p in C01 C02 C03 C04 C05 C06 C07 C08 C09 C10 C11 C12 C13 C14 C15 C16 C17 C18 C19 C20; do
  out=$(VERIF_SEED=$SEED ./check $p --tier $TIER 2>&1); rc=$?
  echo "$out" | grep -E "^(VIOLATION|INCONCLUSIVE)" | cut -c1-300
  echo "$out" | tail -1 | cut -c1-200
  if [ $rc -ne 0 ]; then echo "   ^^^ rc=$rc"; FAIL=1; fi
done
exit ${FAIL:-0}
