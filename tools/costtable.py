#!/usr/bin/env python3
"""Rewrite the cost table of DESIGN.md section 8 from run logs: tools/costtable.py <quick runall log> <thorough log> [<older thorough log>]"""
import re, sys
from pathlib import Path
root = Path(__file__).resolve().parent.parent
def parse(path, tier):
    out = {}
    for l in Path(path).read_text().splitlines():
        m = re.match(rf"(C\d\d) tier={tier} seed=\d+: evaluations=(\d+) distinct_nontrivial=(\d+) .* wall=([\d.]+)s rc=(\d)", l)
        if m:
            out[m.group(1)] = (int(m.group(2)), int(m.group(3)), float(m.group(4)))
    return out
q = parse(sys.argv[1], "quick")
t = parse(sys.argv[2], "thorough")
t1 = parse(sys.argv[3], "thorough") if len(sys.argv) > 3 else {}
fmt = lambda n: f"{n:,}".replace(",", " ")
dur = lambda s: f"{s:.0f} s" if s < 90 else f"{s / 60:.1f} min"
rows = ["| check | quick: wall, cases (distinct non-trivial) | thorough: wall, cases (distinct non-trivial) |", "|---|---|---|"]
for i in range(1, 21):
    c = f"C{i:02d}"
    a, b = q.get(c), t.get(c) or t1.get(c)
    note = "" if c in t or not b else " *"
    rows.append(f"| {c} | " + (f"{dur(a[2])}, {fmt(a[0])} ({fmt(a[1])})" if a else "-") + " | " + (f"{dur(b[2])}, {fmt(b[0])} ({fmt(b[1])}){note}" if b else "-") + " |")
s = (root / "DESIGN.md").read_text()
new = re.sub(r"\| check \| quick: wall, cases.*?\n\n", "\n".join(rows) + "\n\n", s, count=1, flags=re.S)
(root / "DESIGN.md").write_text(new)
print(f"quick total {sum(a[2] for a in q.values()) / 60:.1f} min; thorough rows from the newer log: {len(t)}")
