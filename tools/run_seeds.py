#!/usr/bin/env python3
"""Apply every kept seeded change to /repo in turn, run the relevant quick checks, record which caught it, undo.
usage: tools/run_seeds.py [name-substring]"""
import json, subprocess, sys
from pathlib import Path
ROOT = Path(__file__).resolve().parent.parent
EXTRA = {"C20": ["C07", "C20"], "C04": ["C04", "C16"], "C05": ["C05", "C18"], "C01": ["C01"], "C06": ["C06"], "C13": ["C13"],
         "C03": ["C03"], "C19": ["C19", "C02"]}
flt = sys.argv[1] if len(sys.argv) > 1 else ""
status = subprocess.run(["git", "-C", "/repo", "status", "--porcelain"], capture_output=True, text=True).stdout.strip()
if status:
    sys.exit("refusing: /repo has uncommitted changes")
for d in sorted((ROOT / "seeded").iterdir()):
    if flt not in d.name or not (d / "patch.diff").exists():
        continue
    meta = json.loads((d / "meta.json").read_text())
    prop = meta["property"]
    r = subprocess.run(["git", "-C", "/repo", "apply", "--3way", str(d / "patch.diff")], capture_output=True, text=True)
    if r.returncode != 0:
        subprocess.run(["git", "-C", "/repo", "checkout", "HEAD", "--", "."])
        print(f"{d.name}: PATCH DOES NOT APPLY: {r.stderr[-200:]}")
        meta["caught_by"] = "patch no longer applies to /repo HEAD"
        (d / "meta.json").write_text(json.dumps(meta, indent=1))
        continue
    caught = {}
    for chk in EXTRA.get(prop, [prop]):
        o = subprocess.run([str(ROOT / "check"), chk, "--tier", "quick"], capture_output=True, text=True, cwd=str(ROOT))
        sigs = sorted({l.split("#", 1)[1].strip().split(" (")[0] for l in o.stdout.splitlines() if l.startswith("VIOLATION")})
        caught[chk] = {"rc": o.returncode, "signatures": sigs[:6]}
    subprocess.run(["git", "-C", "/repo", "checkout", "HEAD", "--", "."])
    subprocess.run(["git", "-C", "/repo", "reset", "-q"])
    meta["caught_by"] = {k: v for k, v in caught.items()}
    meta["caught"] = any(v["rc"] == 1 for v in caught.values())
    (d / "meta.json").write_text(json.dumps(meta, indent=1))
    print(f"{d.name}: " + "; ".join(f"{k} rc={v['rc']} {v['signatures'][:2]}" for k, v in caught.items()))
subprocess.run(["rm", "-rf", str(ROOT / "replays")])
