#!/usr/bin/env python3
"""Apply every kept seeded change to a SCRATCH COPY of /repo (never to /repo itself), run the relevant quick checks against
the copy (VERIF_REPO_ROOT), replay the first reported violation with and without the change, record the outcome in meta.json.
usage: tools/run_seeds.py [name-substring]"""
import json, os, re, shutil, subprocess, sys, tempfile
from pathlib import Path
ROOT = Path(__file__).resolve().parent.parent
EXTRA = {"C20": ["C07", "C20"], "C04": ["C04", "C16"], "C05": ["C05", "C18"], "C19": ["C19", "C02", "C08"], "C03": ["C03", "C14"], "C02": ["C02", "C08"]}
flt = sys.argv[1] if len(sys.argv) > 1 else ""
for d in sorted((ROOT / "seeded").iterdir()):
    if not re.search(flt, d.name) or not (d / "patch.diff").exists():
        continue
    meta = json.loads((d / "meta.json").read_text())
    prop = meta["property"]
    work = Path(tempfile.mkdtemp(prefix="seedrun-"))
    try:
        subprocess.run(["git", "-C", "/repo", "worktree", "add", "--detach", str(work / "repo"), "HEAD"], capture_output=True, check=True)
        r = subprocess.run(["git", "-C", str(work / "repo"), "apply", "--3way", str(d / "patch.diff")], capture_output=True, text=True)
        if r.returncode != 0:
            print(f"{d.name}: PATCH DOES NOT APPLY: {r.stderr[-200:]}")
            meta["caught_by"] = "patch no longer applies to /repo HEAD"
            continue
        env = dict(os.environ, VERIF_REPO_ROOT=str(work / "repo"))
        caught = {}
        for chk in EXTRA.get(prop, [prop]):
            shutil.rmtree(ROOT / "replays", ignore_errors=True)
            o = subprocess.run([str(ROOT / "check"), chk, "--tier", "quick"], capture_output=True, text=True, cwd=str(ROOT), env=env)
            lines = [l for l in o.stdout.splitlines() if l.startswith("VIOLATION")]
            sigs = sorted({l.split("#", 1)[1].strip().split(" (")[0] for l in lines})
            entry = {"rc": o.returncode, "signatures": sigs[:6]}
            if lines:
                rp = lines[0].split("replay=")[1].split()[0]
                a = subprocess.run([str(ROOT / "check"), chk, "--replay", rp], capture_output=True, text=True, cwd=str(ROOT), env=env)
                b = subprocess.run([str(ROOT / "check"), chk, "--replay", rp], capture_output=True, text=True, cwd=str(ROOT))
                entry["replay_rc_with_change"] = a.returncode
                entry["replay_rc_on_unchanged_repo"] = b.returncode
            caught[chk] = entry
        meta["caught_by"] = caught
        meta["caught"] = any(v["rc"] == 1 for v in caught.values())
        print(f"{d.name}: " + "; ".join(f"{k} rc={v['rc']} replay={v.get('replay_rc_with_change')}/{v.get('replay_rc_on_unchanged_repo')} {v['signatures'][:2]}" for k, v in caught.items()))
    finally:
        (d / "meta.json").write_text(json.dumps(meta, indent=1))
        subprocess.run(["git", "-C", "/repo", "worktree", "remove", "--force", str(work / "repo")], capture_output=True)
        shutil.rmtree(work, ignore_errors=True)
shutil.rmtree(ROOT / "replays", ignore_errors=True)
print("NOTE: evidence files were rewritten by these runs against scratch copies: re-run tools/runall.sh on the unchanged tree before committing evidence")
