#!/bin/bash
# tools/try_seed.sh <seed-name-prefix> <check> [<check>...]: run quick checks against a scratch worktree with the seeded change applied
cd "$(dirname "$0")/.."
d=$(ls -d seeded/$1* | head -1); shift
wt=$(mktemp -d /tmp/tryseed-XXXX)
git -C /repo worktree add --detach $wt/repo HEAD >/dev/null 2>&1
git -C $wt/repo apply --3way $PWD/$d/patch.diff 2>/dev/null || echo "PATCH DOES NOT APPLY"
for c in "$@"; do
  VERIF_REPO_ROOT=$wt/repo ./check $c --tier ${TIER:-quick} 2>&1 | grep -E "^VIOLATION|^INCONCLUSIVE|tier=" | cut -c1-330
done
git -C /repo worktree remove --force $wt/repo; rm -rf $wt
