#!/usr/bin/env python3
"""Rewrite the two lists of DESIGN.md §5.3 (repaired / open findings) from known_findings.json."""
import json, re
from pathlib import Path
root = Path(__file__).resolve().parent.parent
k = json.loads((root / "known_findings.json").read_text())
s = (root / "DESIGN.md").read_text()
fixed = "\n".join("* `" + f.replace("fixed: ", "", 1) + "`" for f in k["fixed"])
s, n1 = re.subn(r"(\*\*Repaired with `fix:` commits in /repo \()\d+(;[^\n]*\n[^\n]*suppresses nothing\.\n\n)(?:\* `property=[^\n]*\n)+",
                lambda m: f"{m.group(1)}{len(k['fixed'])}{m.group(2)}{fixed}\n", s, count=1)
def bullet(f):
    why = f.get("mechanism", "")
    return (f"* **{f['id']}** ({f['property']}; trigger `{f['trigger']}`; signature `{f['signature']}`) - {f['what']}. "
            f"*Why not repaired:* {why}")
openl = "\n".join(bullet(f) for f in k["open"])
s, n2 = re.subn(r"(\*\*Open findings \()\d+(;[^\n]*\n\n)(?:\* \*\*F-[^\n]*\n)+",
                lambda m: f"{m.group(1)}{len(k['open'])}{m.group(2)}{openl}\n", s, count=1)
(root / "DESIGN.md").write_text(s)
print(f"fixed={len(k['fixed'])} ({n1} block) open={len(k['open'])} ({n2} block)")
