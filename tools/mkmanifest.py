#!/usr/bin/env python3
"""Regenerates /verif/MANIFEST.json from the table below (kept in one place so it is always schema-valid)."""
import json
import sys
from pathlib import Path

ROOT = Path(__file__).resolve().parent.parent
BASELINE_OFF = ("cd /repo && env -u PYOPENAPI_GEN_VERIF /venv/bin/python -m pytest -ra -q -p no:cacheprovider "
                "--timeout=900 --continue-on-collection-errors")

# what was added to a check's workload after its level text below was written (see DESIGN.md section 4, "As built")
ADDED = {
    "C01": "the exhaustive shape catalogue (every wrapper(wrapper(leaf)) as a model, a request body and a response body), compositional 'rich' documents, "
           "recursive unions, dangling references, reusable components by $ref, 2XX ranges, pairs of clients sharing one core (incl. a prefix-named core).",
    "C02": "the shape catalogue: one model per wrapper(wrapper(leaf)) shape (729 quick / 3 240 thorough), the field's annotation must have the shape's structural kind.",
    "C03": "the shape catalogue (instances of every shape, every third property required, every seventh model with additionalProperties) and compositional 'rich' "
           "documents; null entries of maps and null items of arrays are data, not absent optionals.",
    "C04": "the shape catalogue as required JSON request bodies; path values that need percent-encoding judged on the raw request target; Content-Type of raw "
           "bodies; float / uuid / date-time / integer-array / enum-array parameters; reusable components; a shared component parameter.",
    "C05": "the shape catalogue as 200 response bodies; nullable bodies; vendor JSON media types; several content types on one response; 2XX ranges; reusable "
           "component responses.",
    "C06": "declared codes without a registered name; error bodies of every JSON shape; one component response under several codes; body-less success next to "
           "a default response with content.",
    "C07": "one operation listing two spellings of a tag; TRACE / OPTIONS; keyword operationIds; reusable components; 2XX ranges.",
    "C08": "every reference-only graph on three schemas with >= 4 edges and a fixed sample of 400 mixed three-schema graphs in the quick tier.",
    "C09": "prior run with another document, spec file rewritten in place in a warm process, prefix-named sibling cores, rich documents, discriminated unions.",
    "C10": "four layouts incl. a prefix-named sibling core; existing trees whose client matches while only the core was edited / partially deleted.",
    "C11": "six core configurations incl. cores whose directory name extends a client's.",
    "C12": "relative imports resolved against the emitted tree; calls with error statuses inside the generator-blocked interpreter; stale shared cores; a "
           "fresh-process generation emulating an ISO-8859-1 default text encoding.",
    "C13": "several overloaded operations per tag, streaming non-primary responses, two spellings of a tag on one operation, tags never listed first, several "
           "content types, 2XX ranges.",
    "C14": "mapping orders, nullable discriminated unions, every payload list decoded a second time in reverse order; no two unions over one member set per document.",
    "C15": "29 positions (request-body description, info.version, operationId, media types incl. a second one on a response), over-width unbroken tokens, every "
           "pair of 14 character classes, text that looks like code.",
    "C16": "enum leaves, swap key maps, null-key scan of the serialiser's output on cyclic graphs, enum failure injection.",
    "C17": "request sequences, concurrent requests with schedule-dependent yields (arrival orders recorded), OAuth token rotation scripts, non-text header "
           "values, falsy bodies, the async context manager.",
    "C18": "invalid retry fields.",
    "C19": "member order of every object of the paths tree shuffled; rich documents; reusable components and a shared component parameter.",
    "C20": "Unicode identifier-syntax edge classes, keywords in every letter case, three-value enum chains (a / A / a_1).",
}

# sixth round (DESIGN.md section 6): input classes and monitors added after twenty more independent seeded changes
ADDED6 = {
    "C01": "request media types without a schema; meaning-neutral annotations (deprecated, x- extensions, validation keywords); colliding property-name trios.",
    "C02": "a naming scheme of declared names that class-name derivation rewrites (HTTPAlpha, beta_node, GammaV2), compared modulo derivation; models whose wire "
           "keys crowd around one derived field name (two spellings + the de-collided spelling) in every order.",
    "C03": "colliding property-name trios in the compositional grammar.",
    "C04": "the Cookie header must carry exactly this call's cookie arguments (calls share one client; the replay carries the preceding calls); cookie parameters "
           "in every document; request media types without a schema.",
    "C06": "a sibling client without declared errors generated afterwards into the core the client under test shares.",
    "C07": "request media types without a schema; long tags with a common 100+ character prefix; meaning-neutral annotations.",
    "C08": "documents whose operations carry inline schemas, one of which makes parsing raise: rest state of the tracker after the whole load.",
    "C09": "the no-op re-run in a fresh process with TMPDIR, and with the project root, reached through a symbolic link.",
    "C10": "the real command line with post-processing ON (ruff child processes) traced at syscall level with strace -f -y, working directory = project root and "
           "elsewhere; matching output under namespace-package ancestors (no __init__.py above the packages).",
    "C11": "a shared core that IS the embedded core of the first client (core_package = '<first client>.core').",
    "C12": "meaning-neutral annotations on operations, parameters, schemas and properties (a generator reacting to `deprecated` with an import becomes visible).",
    "C13": "the shape catalogue as inline request and response bodies (every type expression in a signature).",
    "C14": "variant names the sanitiser rewrites (CatV2, HTTPDog, eel_fish); several discriminator values mapped to one schema; a variant whose required "
           "properties all carry defaults.",
    "C16": "modules with postponed (PEP 563) and quoted annotations; nullable fields whose declared default is a value, not None.",
    "C18": "two or three streams decoded concurrently on one event loop (chunk boundaries are where they interleave; delivery orders recorded) and fresh streams "
           "decoded after one whose connection dropped in the middle of an event.",
    "C19": "keyword order inside every schema object; typeless schemas carrying two kinds of structural keyword (properties next to oneOf / anyOf / allOf / enum).",
    "C20": "a third property spelled like the de-collided field name (a / A / a_2); long names with a common 100+ character prefix.",
}

# seventh round: ten more seeded changes plus the defects of the unmodified tree their authors reported
ADDED7 = {
    "C01": "tags spelled like a schema of the document, one operation per position the schema can appear in.",
    "C02": "documents that are merely large (hundreds of references to one finished schema, with and without a rewritten name); primitive properties whose JSON "
           "key is spelled like a schema; integer enums without a type keyword, inline and referenced, in the catalogue.",
    "C07": "the trigger class of tags named like a member of APIClient (recorded finding).",
    "C08": "the rewritten naming scheme (state keyed by declared names, registry by derived names).",
    "C09": "re-run of either client after two clients share a core; the command line with post-processing ON under different hash seeds, working directories "
           "and roots; an odd project-root path; a prior run with another core layout (every file under the package roots, whatever its suffix).",
    "C11": "non-IANA status codes; the owner of an embedded shared core may be force-regenerated.",
    "C12": "the default mode (post-processing ON): the runtime modules must still be the shipped bytes; operations with rarely met response media types.",
    "C13": "operations with rarely met response media types (YAML, multipart/mixed, json-seq, XML).",
    "C14": "variants that share one enum schema for the discriminator property; discriminator values that differ only in case or punctuation.",
    "C15": "eight more positions: schema / property titles, the discriminator property name, root tag and externalDocs descriptions, a parameter default, inline enum values.",
    "C16": "reference cycles with annotations spelled as generated models spell them (recorded finding); dataclass inheritance with base and derived class converted in one process.",
    "C19": "the shape catalogue and a merely large document under the permutation differential.",
}

# id -> (category, technique, level text, level note, design ref)
CHECKS = {
    "C15": ("exploration", "runtime monitoring: position x payload matrix through the real generator with AST-skeleton differential and literal read-back oracles",
            "21 text-bearing positions x 24 hostile payloads (quotes, triple quotes, backslash / escape-like sequences, LF, CR, CRLF, tab, braces, #, %s, NUL, non-ASCII, "
            "would-be injection) plus random Unicode strings are placed into a fixed document and generated for real; every emitted file must parse; its AST skeleton "
            "(node types and arity, constants and identifier spellings blanked, class/module bodies and dict displays as multisets) must equal the skeleton obtained with "
            "benign text in the same position; meaning-carrying literals (enum value, wire key, query/header name, string default, discriminator value) must appear as "
            "exactly the original string constant.",
            "One base document; positions listed in the rule; skeleton comparison cannot see changes that keep node structure.",
            "DESIGN.md §4 C15"),
    "C10": ("fault_enumeration", "runtime monitoring with fault injection: audit-hook file-system event log with an online containment policy and safety fence, before/after snapshots, stage / LINE-failpoint / ENOSPC faults; strace -f syscall log for runs whose writers are child processes",
            "For 3 layouts x existing tree {equal, different, partially present} x force {off, on}: a fault-free run, every generation stage (load, parse, six emitters, "
            "post-processing, diff) failing at entry and at exit, OSError(ENOSPC) at the k-th write for every k, and a sys.monitoring LINE failpoint at the statements "
            "the fault-free run executed inside ClientGenerator.generate and the emitters (quick: every 6th, thorough: all; each a separate run). An audit hook records "
            "every write-open / remove / rename / mkdir / rmdir / rmtree under the sandbox project root (classified by effect) and the whole root is snapshotted "
            "(path, size, sha256, mtime_ns) before and after: without force nothing may be touched; in any mode only the output package, the core package and ancestor "
            "__init__.py files; stage and write faults must surface as a raise. Destructive calls outside the scratch root are fenced.",
            "In the fault-injection runs post-processing children are not run (stage failed at entry); the fault-free command-line runs with post-processing on are traced with strace. For LINE failpoints only the effect oracles apply. One small document per configuration.",
            "DESIGN.md §4 C10"),
    "C11": ("exploration", "runtime monitoring: history workload with a fresh-interpreter import probe and needed-symbols check after every step; recording postcondition on _update_registry",
            "Histories of generate actions (client, document with a given declared error set, force on/off; with repetition and with documents changing under a "
            "client) over 3 clients into one project with a shared core at package depth 1-4. After EVERY step a fresh interpreter imports every module of every "
            "client generated so far and resolves each name those clients import from the core (collected by ast). Quick: random length-4 histories; thorough: all "
            "two-step histories x 4 depths plus random length 5-6.",
            "Non-force steps that raise are visible failures and not judged; documents are minimal (one operation) with varying error sets.",
            "DESIGN.md §4 C11"),
    "C09": ("exploration", "runtime monitoring: byte-level differential between real generations (hash seed / process / clock / root), before-after snapshots with mtime_ns, tampering, recording wrapper on _show_diffs",
            "Each document is generated in fresh processes under several PYTHONHASHSEED values, in a warm process after other documents, with the clock shifted and "
            "into another root: all trees must be byte-identical (sha256 per file). A non-force re-run over the fresh output must succeed and leave bytes and "
            "mtime_ns of every file untouched; after editing or deleting one generated file (client or core) the non-force run must fail. A wrapper on the real "
            "ClientGenerator._show_diffs compares its verdict with an independent directory comparison on every call.",
            "An extra user file in the output tree is not judged. Layouts: default core and explicit core packages.",
            "DESIGN.md §4 C09"),
    "C19": ("exploration", "runtime monitoring: metamorphic differential between real generations (rendering and order variants) with manifests read back by introspection",
            "Each clean document is generated from its JSON, YAML-block, YAML-flow and YAML-with-unquoted-integer-status-keys renderings (no key sorting): the emitted "
            "trees must be byte-identical and no operation may be skipped. Random permutations of components.schemas, paths and properties are generated as "
            "separate packages and their normalised manifests (models -> wire key -> kind/required, enum value sets, alias targets, tag clients -> method signatures, "
            "APIClient properties), read in a fresh interpreter, must equal the unpermuted one.",
            "Documents are the clean grammar's (no name collisions, acyclic); un-importable packages are C01's matter.",
            "DESIGN.md §4 C19"),
    "C02": ("exploration", "runtime monitoring: independent reference resolver compared with the real loader's IR and with the imported generated dataclasses, over exhaustively enumerated small schema graphs",
            "graphgen builds every directed multigraph on 2 named schemas (8 edge kinds incl. allOf, per ordered pair and self-pair) x both declaration orders x 3 "
            "naming schemes (unrelated, prefix-of-one-another, property==schema name up to case) with an independent expectation (own + allOf-inherited properties). "
            "Each graph is loaded by the real load_ir_from_spec and compared per declared schema (present, not a placeholder, key set, required); a sample (all acyclic "
            "graphs) is generated and read back in a fresh interpreter: one dataclass per schema, Meta load/dump maps are inverse bijections onto the fields with "
            "exactly the spec's keys, has-default <=> optional, structural kind. Thorough: 3 schemas <=3 edges x 6 orders, random 4-6 node graphs. Field loss is "
            "attributed to the open finding only for schemas on (or inheriting from) a reference cycle.",
            "Graphs with cyclic allOf skipped (undefined inheritance); validator stubbed; kind check lenient on names of promoted inline classes.",
            "DESIGN.md §4 C02"),
    "C03": ("exploration", "runtime monitoring: round-trip oracle through the emitted package's own converter in a fresh interpreter",
            "For documents from the grammar every generated object model / array alias is fed schema-conforming instances (required-only, all, random subsets, "
            "explicit nulls; formats date-time/date/uuid/time/byte/...; 7 property-name styles; self-references incl. arrays of self) and "
            "unstructure_to_dict(structure_from_dict(d, M)) is compared with d under the tolerance the property states.",
            "Model located by alnum-casefold name match; unions excluded (C14); name collisions inside one schema are C20's workload.",
            "DESIGN.md §4 C03"),
    "C14": ("exploration", "runtime monitoring: decode/re-encode oracle over enumerated unions through the emitted converter; predicate-keyed known finding",
            "All ordered 2-variant unions over a 9-shape pool, sampled (thorough: all) 3- and 4-variant unions, and all 2-3 variant discriminated unions are generated "
            "as alias, field, inline list item and named-array field; every variant's minimal and maximal payload is decoded and re-encoded with the package's own "
            "converter; lossy decodes, wrong variant class under a discriminator, guessed unmapped discriminator values and silently retried undecodable mapped "
            "variants are violations. The open first-match finding is matched only on (union, payload) pairs where an earlier variant's required keys are "
            "contained in the payload.",
            "Shapes pool is fixed; payloads are the minimal/maximal document per variant.",
            "DESIGN.md §4 C14"),
    "C06": ("exploration", "runtime monitoring: exception classifier on calls of generated methods under a status-injecting fake server, two transports",
            "Every generated operation is called with the MockTransport answering statuses outside 200-299 (quick: declared + boundary + random; thorough: ALL of "
            "100-199 and 300-599), through the bundled HttpxTransport and through a minimal custom transport that returns non-2xx unraised. The outcome must be a "
            "raise of the package's HTTPError carrying that status and the response; 4xx must be ClientError, 5xx ServerError; a return is a violation.",
            "1xx delivered as final responses by MockTransport.",
            "DESIGN.md §4 C06"),
    "C04": ("exploration", "runtime monitoring: wire capture (httpx.MockTransport under the generated HttpxTransport) compared with an expected-request model",
            "Generated operations are called in a fresh interpreter through the emitted package's own transport; the captured httpx.Request is compared with an "
            "expected request built from the expectation model and the concrete argument values: exactly one request, HTTP method, path with substituted values, "
            "every supplied query/header parameter under its original name and wire encoding, omitted optionals absent, body media type and content (JSON tolerant "
            "equality, form, multipart parts, raw bytes). Every subset of the optional arguments for operations with <=4 optionals. Held on what was observed.",
            "Model-typed arguments are built with the package's own converter; header values are visible ASCII; unions excluded (C14).",
            "DESIGN.md §4 C04"),
    "C05": ("exploration", "runtime monitoring: fake server inside the probe + typed-return / re-serialisation oracle on the generated methods",
            "For every declared 2xx response of every generated operation the MockTransport answers with that status, media type and a schema-conforming body; the call "
            "must not raise, must return a value structurally matching typing.get_type_hints of the method, and its re-serialisation with the package's own converter "
            "must equal the body (tolerant equality); content-less responses return None; text verbatim; SSE / NDJSON / byte streams yield the sent items in order "
            "under random chunking.",
            "Bodies come from the harness' instance generator; unions excluded (C14).",
            "DESIGN.md §4 C05"),
    "C07": ("exploration", "runtime monitoring: behavioural bijection between input operations and generated methods via wire capture; warnings monitor; icontract postcondition on the real de-duplication",
            "Documents with varied tag assignments (none/one/several/spelling variants), operationId shapes (absent, colliding after sanitisation, FastAPI-suffixed), "
            "3 naming strategies and JSON/YAML renderings (incl. unquoted integer status keys) are generated; in a fresh interpreter every public coroutine / "
            "async-generator method of every tag client reachable from APIClient is CALLED over a recording transport and identified by the unique /opN/ segment "
            "and HTTP method it hits: each (operation, tag) must be served by exactly one method, no method may serve two operations, names must be identifiers, "
            "unique in the class body and agree with the strategy on collision-free inputs. 'Skipping operation' warnings with a successful generation are "
            "violations. In vivo icontract postcondition on _deduplicate_operation_ids_globally (per-client uniqueness).",
            "Tag clients matched to tags by alnum-casefold of the property name; strategy-name oracle only for the controlled operationId shapes of the grammar.",
            "DESIGN.md §4 C07"),
    "C12": ("exploration", "runtime monitoring: AST import scan of every emitted file + import audit hook and generator-blocked execution in a fresh interpreter + byte comparison of runtime files",
            "For documents from the grammar (biased to wrapper/union/enum templates) x 8 layouts: every Import/ImportFrom node at any depth of every emitted "
            "file is judged against {stdlib, httpx, cattrs, the package, its core}; a fresh `python -I` with pyopenapi_gen blocked imports every module, "
            "records (importer file, imported top-level) audit events, and structures/unstructures something with every model and typed-map wrapper so "
            "imports nested in generated functions execute; sha256 of the 8 runtime files vs /repo/src/pyopenapi_gen/core.",
            "stdlib = sys.stdlib_module_names (3.12). Nested imports in endpoint methods are covered by the AST scan, executed only by C04/C05.",
            "DESIGN.md §4 C12"),
    "C13": ("exploration", "runtime monitoring: introspection probe (inspect.signature, Protocol isinstance, calling every mock method) on imported generated packages",
            "Documents with multi-tag operations, tag spelling variants, overloaded (multi-content-type) operations incl. several per tag, streaming operations "
            "and many optional parameters are generated; in a fresh interpreter the client class, Protocol and mock of every tag are compared by method set, "
            "signature (names/order/kinds/defaults/annotation strings/return) and call nature; instances are checked against the runtime_checkable Protocols; "
            "every mock method is called and must raise NotImplementedError; MockAPIClient vs APIClient tag properties.",
            "Annotation comparison is textual (as rendered). Held on the documents explored.",
            "DESIGN.md §4 C13"),
    "C01": ("exploration", "runtime monitoring: compile() of every emitted file + fresh-interpreter import-all / __all__ resolution probe with the generator blocked",
            "Documents from a seeded OpenAPI grammar (with an expectation model) x 8 output layouts x 3 naming strategies are generated by the real "
            "generator; every emitted .py is compiled, and a self-contained probe in a fresh `python -I` (generator blocked on the meta path) imports "
            "every module of the emitted package and core and resolves every __all__ name. Clean-grammar violations are always new; trigger classes "
            "carry the open findings. Acceptance-rate collapse is inconclusive. Held on the documents explored, nothing more.",
            "Probe interpreter is /venv with the generator blocked (it has more than httpx+cattrs installed; foreign imports are C12's business). Post-processing skipped.",
            "DESIGN.md §4 C01"),
    "C20": ("exploration", "runtime monitoring: icontract postconditions on the real name-derivation functions (exhaustive short strings) + namespace read-back by introspection of generated code",
            "Function level: all 41370 strings of length<=4 over a 14-character alphabet (letters, digit, separators, symbols, accented, CJK) plus random "
            "Unicode are passed through the seven real derivation functions with icontract postconditions attached from the harness (non-empty, "
            "str.isidentifier, not a keyword); evaluation counters per function are reported and zero evaluations is inconclusive. Namespace level: "
            "pairs of distinct spec names placed in one namespace are generated for real and read back from the imported package. Held on what was observed.",
            "Oracle at function level is identifier validity only; class-body validity is judged by importing generated code. Exhaustive only up to length 4 over the stated alphabet.",
            "DESIGN.md §4 C20"),
    "C16": ("exploration", "runtime monitoring: round-trip law oracles + icontract postcondition on the real converter/serialiser, first-use-order differential in fresh processes",
            "Random dataclass type trees (depth<=4, list/dict/Optional/nested, 7 leaf types, 4 kinds of Meta key map) are written as source modules, "
            "imported, and driven through the repository's own structure_from_dict / unstructure_to_dict / DataclassSerializer.serialize; an independent "
            "encoder supplies the expected JSON and instance. Decode==instance, encode==JSON, encode(decode)==JSON, ValueError-naming-the-field on injected "
            "un-coercible values, and identical outcomes across three first-use orders in fresh processes (hook-registration history). Cyclic instance "
            "graphs (11 shapes) for the serialiser with an icontract postcondition (json.dumps-able, no None-valued keys). Held on what was observed.",
            "Laws stated for total documents; leaf types limited to those the converter documents; cyclic shapes are a fixed list.",
            "DESIGN.md §4 C16"),
    "C08": ("exploration", "runtime monitoring: shadow tracker + rest-state/final-state assertions hooked on the real cycle tracker, sys.monitoring RAISE/LINE observers",
            "Wrappers installed from the harness around unified_enter_schema/unified_exit_schema, extractor._parse_schema and loader.build_schemas "
            "observe every enter/exit event of the real parser while it loads all 2-node schema multigraphs (8 edge kinds, self-pairs, both orders, "
            "naming schemes), deep chains/nestings beyond the limit with later re-references, under PYOPENAPI_MAX_DEPTH in {1,2,5,10,150} "
            "(fresh processes per setting); thorough adds all 3-node graphs with <=3 edges, random larger graphs and the bundled corpus. "
            "Asserts balance at every event, rest state after each top-level schema, terminal states and presence of declared names, "
            "no CONTINUE beyond the limit, no RecursionError originating in the generator, step budget. Held on what was observed.",
            "OpenAPI validator stubbed for speed except on a sample; limits above 150 not explored; evidence lists which return sites of _parse_schema were reached.",
            "DESIGN.md §4 C08"),
    "C17": ("exploration", "runtime monitoring: wire capture under the real HttpxTransport + independent header/auth merge model",
            "Every ordered selection of 0-3 of the 7 bundled auth plugin configurations x 6 header-overlap patterns x caller params/cookies/body presence is sent through the real HttpxTransport into an httpx.MockTransport; the captured request is compared with a case-insensitive merge model (defaults < per-request < plugins in order), API key location/name, and pass-through of caller params, cookies and body. Exhaustive over that finite configuration space; values/names are fixed representatives.",
            "Trusts httpx.MockTransport as the wire; header names/values are representatives, not all strings.",
            "DESIGN.md §4 C17"),
    "C18": ("exploration", "runtime monitoring: chunking-invariance + reference-model oracle over executions of the real stream decoders",
            "Runs the real iter_sse / iter_sse_events_text / iter_ndjson / iter_bytes over httpx responses fed by an async chunk "
            "iterator; every chunking of every short stream (exhaustive 2^(n-1)) and all single/double split points plus random "
            "chunkings of longer ones are compared with the unsplit decode and, for the plain grammar, with an independent block model. "
            "Held-on-what-was-observed, not a proof.",
            "Trusts httpx.Response(content=async iterator) as the model of network chunking; reference model limited to the plain grammar.",
            "DESIGN.md §4 C18"),
}

NOT_YET = {}


def main() -> None:
    props = [json.loads(l) for l in (ROOT / "properties.jsonl").read_text().splitlines() if l.strip()]
    checks, na = [], []
    for p in props:
        pid = p["id"]
        if pid in CHECKS and (ROOT / "vmon" / "props" / f"{pid.lower()}.py").exists():
            cat, tech, text, note, ref = CHECKS[pid]
            if pid in ADDED:
                text = text + " Added while building: " + ADDED[pid]
            if pid in ADDED6:
                text = text + " Sixth round: " + ADDED6[pid]
            if pid in ADDED7:
                text = text + " Seventh round: " + ADDED7[pid]
            checks.append({
                "property_id": pid,
                "quick_cmd": f"./check {pid} --tier quick",
                "thorough_cmd": f"./check {pid} --tier thorough",
                "evidence_file": f"/verif/evidence/{pid}.json",
                "replay_cmd_template": f"./check {pid} --replay {{path}}",
                "engine": "vmon",
                "level_claimed": {"category": cat, "text": text, "design_ref": ref},
                "level_note": note,
                "technique": tech,
            })
        else:
            na.append({"property_id": pid, "reason": NOT_YET.get(
                pid, "check not built yet in this round (runtime monitoring applies; see DESIGN.md §4) — not claimed until it exists and is silent on the unchanged tree")})
    hooks_commits = []
    hc = ROOT / "hooks_commits.txt"
    if hc.exists():
        hooks_commits = [l.split()[0] for l in hc.read_text().splitlines() if l.strip()]
    man = {
        "version": 1,
        "setup_cmd": "./setup.sh",
        "hooks": {
            "guard": "PYOPENAPI_GEN_VERIF",
            "enable": "no build step: checks import /repo/src directly and install their monitors from the harness "
                      "(wrappers, icontract contracts, audit hooks, sys.monitoring) with PYOPENAPI_GEN_VERIF=1 set in every worker",
            "baseline_off_cmd": BASELINE_OFF,
            "source_commits": hooks_commits,
            "add_only": True,
        },
        "engines": [{"name": "vmon", "path": "/verif/vmon", "serves_properties": [c["property_id"] for c in checks],
                     "kind_free_text": "Python runtime-monitoring harness: seeded workload generators, wrappers/contracts on the real "
                                       "functions, wire capture under the generated transport, audit-hook and sys.monitoring observers, "
                                       "reference-model and metamorphic oracles, known-findings matcher"}],
        "checks": checks,
        "not_applicable": na,
        "notes": "All verdicts come from oracles observing executions of /repo's current working tree (runtime monitoring). "
                 "Exit 2 = inconclusive (never folded into held). Known findings: /verif/known_findings.json.",
    }
    (ROOT / "MANIFEST.json").write_text(json.dumps(man, indent=1) + "\n")
    print(f"MANIFEST.json: {len(checks)} checks, {len(na)} not claimed")


if __name__ == "__main__":
    main()
