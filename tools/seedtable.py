#!/usr/bin/env python3
"""Rewrite the seeded-change table in DESIGN.md (§6) from seeded/*/meta.json (written by tools/run_seeds.py)."""
import json, re
from pathlib import Path
root = Path(__file__).resolve().parent.parent
rows = ["| seeded change | property | caught by (quick tier): signatures |", "|---|---|---|"]
n = caught = 0
for d in sorted((root / "seeded").iterdir()):
    m = d / "meta.json"
    if not m.exists():
        continue
    j = json.loads(m.read_text())
    cb = j.get("caught_by")
    if not isinstance(cb, dict):
        rows.append(f"| `{d.name}` | {j['property']} | (not run yet) |")
        continue
    n += 1
    caught += bool(j.get("caught"))
    hit = "; ".join(f"{k}: `{', '.join(v['signatures'][:2])}`" for k, v in cb.items() if v.get("rc") == 1)
    silent = [k for k, v in cb.items() if v.get("rc") == 0]
    cell = hit or "**missed**"
    if str(j.get("status", "")).startswith("obsolete"):
        n -= 1
        caught -= bool(j.get("caught"))
        cell = "obsolete: relied on a defect of the unmodified tree that has since been repaired (meta.json: status)"
    if silent and hit:
        cell += f" (silent: {', '.join(silent)})"
    rows.append(f"| `{d.name}` | {j['property']} | {cell} |")
s = (root / "DESIGN.md").read_text()
new = re.sub(r"\| seeded change \| property \|.*?\n\n", "\n".join(rows) + "\n\n", s, count=1, flags=re.S)
(root / "DESIGN.md").write_text(new)
print(f"{n} seeded changes, {caught} caught")
