#!/usr/bin/env python
"""Side finding 1 (unmodified tree): force-regenerating the client whose package CONTAINS the shared core
deletes the registry, so the exceptions of every other client of that core disappear.

History:
    1. generate client ``a`` with the default core (``a.core``)           - declares 404, 409
    2. generate client ``b`` with ``core_package="a.core"``               - declares 404, 410
    3. regenerate ``a`` (force) with a spec that only declares 409

Step 3 starts with ``shutil.rmtree(<project>/a)`` which takes ``a/core/.exception_registry.json`` with it;
the registry is then rebuilt from ``a`` alone and ``exception_aliases.py`` is written without GoneError /
NotFoundError, which ``b``'s endpoints import.

The same happens for any layout in which the core lives somewhere below a client's package directory
(e.g. client ``pyapis`` with core ``pyapis.shared.core`` used by ``other.b``).

Exit 1 when the defect shows, 0 otherwise.   Run: PYTHONPATH=<tree>/src /venv/bin/python side_1.py
"""

import shutil
import sys
import tempfile
from pathlib import Path

# --- helpers ------------------------------------------------------------
import contextlib
import io
import json
import os
import subprocess
import sys
from pathlib import Path

from pyopenapi_gen import generate_client


def make_spec(title: str, error_codes: list[int]) -> dict:
    responses: dict[str, dict] = {
        "200": {
            "description": "ok",
            "content": {"application/json": {"schema": {"type": "object", "properties": {"id": {"type": "string"}}}}},
        }
    }
    for code in error_codes:
        responses[str(code)] = {"description": f"error {code}"}
    return {
        "openapi": "3.0.3",
        "info": {"title": title, "version": "1.0.0"},
        "paths": {
            "/things": {
                "get": {
                    "operationId": "get_thing",
                    "summary": "get a thing",
                    "tags": ["things"],
                    "responses": responses,
                }
            }
        },
    }


def generate(root, package, error_codes, core_package, force=True, quiet=True):
    root = Path(root)
    root.mkdir(parents=True, exist_ok=True)
    spec_path = root / (package.replace(".", "_") + ".json")
    spec_path.write_text(json.dumps(make_spec(package, error_codes)))
    sink = io.StringIO()
    with contextlib.redirect_stdout(sink) if quiet else contextlib.nullcontext():
        generate_client(
            spec_path=str(spec_path),
            project_root=str(root),
            output_package=package,
            core_package=core_package,
            force=force,
            no_postprocess=True,
            verbose=False,
        )
    return sink.getvalue()


def imports_ok(root, packages):
    """Import every package, its client module and all its endpoint modules in a fresh interpreter."""
    code = (
        "import importlib, pkgutil, sys\n"
        "for p in sys.argv[1:]:\n"
        "    importlib.import_module(p)\n"
        "    importlib.import_module(p + '.client')\n"
        "    e = importlib.import_module(p + '.endpoints')\n"
        "    for m in pkgutil.iter_modules(e.__path__):\n"
        "        importlib.import_module(p + '.endpoints.' + m.name)\n"
    )
    env = dict(os.environ)
    env["PYTHONPATH"] = str(root) + os.pathsep + env.get("PYTHONPATH", "")
    env["PYTHONDONTWRITEBYTECODE"] = "1"
    result = subprocess.run(
        [sys.executable, "-c", code, *packages], cwd=str(root), env=env, capture_output=True, text=True
    )
    lines = result.stderr.strip().splitlines()
    return result.returncode == 0, (lines[-1] if lines else "")
# ------------------------------------------------------------------------


def main() -> int:
    work = Path(tempfile.mkdtemp(prefix="c11_side1_"))
    try:
        root = work / "project"
        generate(root, "a", [404, 409], None)
        generate(root, "b", [404, 410], "a.core")
        ok, detail = imports_ok(root, ["a", "b"])
        if not ok:
            print("unexpected: clients do not import right after generation:", detail)
            return 2
        generate(root, "a", [409], None)
        ok, detail = imports_ok(root, ["a", "b"])
        if not ok:
            print("DEFECT: after force-regenerating 'a' (which embeds the shared core) client 'b' is broken")
            print("  " + detail)
            return 1
        print("ok: both clients still import")
        return 0
    finally:
        shutil.rmtree(work, ignore_errors=True)


if __name__ == "__main__":
    sys.exit(main())
