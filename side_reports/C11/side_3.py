#!/usr/bin/env python
"""Side finding 3 (unmodified tree; adjacent to C11, not a violation of it): a non-force run over an UNCHANGED
client reports differences as soon as another client with other error statuses shares the core.

The non-force path renders the client into a temporary project whose core has no registry, so the temporary
``exception_aliases.py`` holds this client's classes only, and compares it with the live file that holds the
union.  Nothing is removed (C11 holds), but "regenerate without force" - part of C11's quantifier - always ends
in ``GenerationError: Differences found`` in a shared-core project, for every client, although nothing changed.

Exit 1 when the defect shows, 0 otherwise.   Run: PYTHONPATH=<tree>/src /venv/bin/python side_3.py
"""

import shutil
import sys
import tempfile
from pathlib import Path

# --- helpers ------------------------------------------------------------
import contextlib
import io
import json
import os
import subprocess
import sys
from pathlib import Path

from pyopenapi_gen import generate_client


def make_spec(title: str, error_codes: list[int]) -> dict:
    responses: dict[str, dict] = {
        "200": {
            "description": "ok",
            "content": {"application/json": {"schema": {"type": "object", "properties": {"id": {"type": "string"}}}}},
        }
    }
    for code in error_codes:
        responses[str(code)] = {"description": f"error {code}"}
    return {
        "openapi": "3.0.3",
        "info": {"title": title, "version": "1.0.0"},
        "paths": {
            "/things": {
                "get": {
                    "operationId": "get_thing",
                    "summary": "get a thing",
                    "tags": ["things"],
                    "responses": responses,
                }
            }
        },
    }


def generate(root, package, error_codes, core_package, force=True, quiet=True):
    root = Path(root)
    root.mkdir(parents=True, exist_ok=True)
    spec_path = root / (package.replace(".", "_") + ".json")
    spec_path.write_text(json.dumps(make_spec(package, error_codes)))
    sink = io.StringIO()
    with contextlib.redirect_stdout(sink) if quiet else contextlib.nullcontext():
        generate_client(
            spec_path=str(spec_path),
            project_root=str(root),
            output_package=package,
            core_package=core_package,
            force=force,
            no_postprocess=True,
            verbose=False,
        )
    return sink.getvalue()


def imports_ok(root, packages):
    """Import every package, its client module and all its endpoint modules in a fresh interpreter."""
    code = (
        "import importlib, pkgutil, sys\n"
        "for p in sys.argv[1:]:\n"
        "    importlib.import_module(p)\n"
        "    importlib.import_module(p + '.client')\n"
        "    e = importlib.import_module(p + '.endpoints')\n"
        "    for m in pkgutil.iter_modules(e.__path__):\n"
        "        importlib.import_module(p + '.endpoints.' + m.name)\n"
    )
    env = dict(os.environ)
    env["PYTHONPATH"] = str(root) + os.pathsep + env.get("PYTHONPATH", "")
    env["PYTHONDONTWRITEBYTECODE"] = "1"
    result = subprocess.run(
        [sys.executable, "-c", code, *packages], cwd=str(root), env=env, capture_output=True, text=True
    )
    lines = result.stderr.strip().splitlines()
    return result.returncode == 0, (lines[-1] if lines else "")
# ------------------------------------------------------------------------

from pyopenapi_gen.generator.exceptions import GenerationError


def main() -> int:
    work = Path(tempfile.mkdtemp(prefix="c11_side3_"))
    try:
        root = work / "project"
        generate(root, "apis.a", [404, 409], "apis.core")
        generate(root, "apis.a", [404, 409], "apis.core", force=False)  # alone: no differences, fine
        generate(root, "apis.b", [404, 410], "apis.core")
        try:
            generate(root, "apis.a", [404, 409], "apis.core", force=False)
        except GenerationError as exc:
            print("DEFECT: unchanged client 'apis.a', non-force run after 'apis.b' joined the core:", exc)
            ok, _ = imports_ok(root, ["apis.a", "apis.b"])
            print("  (both clients still import: %s)" % ok)
            return 1
        print("ok: no differences reported")
        return 0
    finally:
        shutil.rmtree(work, ignore_errors=True)


if __name__ == "__main__":
    sys.exit(main())
