#!/usr/bin/env python
"""Side finding 4 (unmodified tree): a client generated into a sub-package of another client is deleted when the
outer client is force-regenerated.

History:
    1. generate ``apis.v1``        (core ``apis.core``)
    2. generate ``apis.v1.admin``  (same core) - a legal package path, both clients import
    3. regenerate ``apis.v1`` (force, same spec)

Step 3 begins with ``shutil.rmtree(<project>/apis/v1)``: the whole ``apis.v1.admin`` client goes with it (its
registry entry stays behind).  Odd layout, but nothing rejects it and the generator is the one removing
another client's files.

Exit 1 when the defect shows, 0 otherwise.   Run: PYTHONPATH=<tree>/src /venv/bin/python side_4.py
"""

import shutil
import sys
import tempfile
from pathlib import Path

# --- helpers ------------------------------------------------------------
import contextlib
import io
import json
import os
import subprocess
import sys
from pathlib import Path

from pyopenapi_gen import generate_client


def make_spec(title: str, error_codes: list[int]) -> dict:
    responses: dict[str, dict] = {
        "200": {
            "description": "ok",
            "content": {"application/json": {"schema": {"type": "object", "properties": {"id": {"type": "string"}}}}},
        }
    }
    for code in error_codes:
        responses[str(code)] = {"description": f"error {code}"}
    return {
        "openapi": "3.0.3",
        "info": {"title": title, "version": "1.0.0"},
        "paths": {
            "/things": {
                "get": {
                    "operationId": "get_thing",
                    "summary": "get a thing",
                    "tags": ["things"],
                    "responses": responses,
                }
            }
        },
    }


def generate(root, package, error_codes, core_package, force=True, quiet=True):
    root = Path(root)
    root.mkdir(parents=True, exist_ok=True)
    spec_path = root / (package.replace(".", "_") + ".json")
    spec_path.write_text(json.dumps(make_spec(package, error_codes)))
    sink = io.StringIO()
    with contextlib.redirect_stdout(sink) if quiet else contextlib.nullcontext():
        generate_client(
            spec_path=str(spec_path),
            project_root=str(root),
            output_package=package,
            core_package=core_package,
            force=force,
            no_postprocess=True,
            verbose=False,
        )
    return sink.getvalue()


def imports_ok(root, packages):
    """Import every package, its client module and all its endpoint modules in a fresh interpreter."""
    code = (
        "import importlib, pkgutil, sys\n"
        "for p in sys.argv[1:]:\n"
        "    importlib.import_module(p)\n"
        "    importlib.import_module(p + '.client')\n"
        "    e = importlib.import_module(p + '.endpoints')\n"
        "    for m in pkgutil.iter_modules(e.__path__):\n"
        "        importlib.import_module(p + '.endpoints.' + m.name)\n"
    )
    env = dict(os.environ)
    env["PYTHONPATH"] = str(root) + os.pathsep + env.get("PYTHONPATH", "")
    env["PYTHONDONTWRITEBYTECODE"] = "1"
    result = subprocess.run(
        [sys.executable, "-c", code, *packages], cwd=str(root), env=env, capture_output=True, text=True
    )
    lines = result.stderr.strip().splitlines()
    return result.returncode == 0, (lines[-1] if lines else "")
# ------------------------------------------------------------------------


def main() -> int:
    work = Path(tempfile.mkdtemp(prefix="c11_side4_"))
    try:
        root = work / "project"
        generate(root, "apis.v1", [404, 409], "apis.core")
        generate(root, "apis.v1.admin", [404, 410], "apis.core")
        ok, detail = imports_ok(root, ["apis.v1", "apis.v1.admin"])
        if not ok:
            print("unexpected: clients do not import right after generation:", detail)
            return 2
        generate(root, "apis.v1", [404, 409], "apis.core")
        ok, detail = imports_ok(root, ["apis.v1", "apis.v1.admin"])
        if not ok:
            print("DEFECT: force-regenerating 'apis.v1' removed the client 'apis.v1.admin'")
            print("  " + detail)
            return 1
        print("ok: both clients still import")
        return 0
    finally:
        shutil.rmtree(work, ignore_errors=True)


if __name__ == "__main__":
    sys.exit(main())
