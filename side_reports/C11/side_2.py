#!/usr/bin/env python
"""Side finding 2 (unmodified tree): one core directory reached under two package names.

``exception_aliases.py`` is the only file of the core that imports its siblings ABSOLUTELY
(``from <core_package>.exceptions import ClientError, ServerError``) and it is rewritten by every generation with
the core package name of the client being generated.  When the same core directory is addressed as ``x.core``
from project root ``<p>`` and as ``core`` from project root ``<p>/x`` (a monorepo sub-project generating into the
same tree), the second generation rewrites that import to ``from core.exceptions import ...`` and the first client,
imported the way it always was (``<p>`` on sys.path), no longer imports at all.

Borderline with respect to C11's "one project" wording (the project ROOT differs, the core directory does not);
recorded because both clients share one registry and one exception_aliases.py, i.e. the generator does treat
them as clients of one core.

Exit 1 when the defect shows, 0 otherwise.   Run: PYTHONPATH=<tree>/src /venv/bin/python side_2.py
"""

import shutil
import sys
import tempfile
from pathlib import Path

# --- helpers ------------------------------------------------------------
import contextlib
import io
import json
import os
import subprocess
import sys
from pathlib import Path

from pyopenapi_gen import generate_client


def make_spec(title: str, error_codes: list[int]) -> dict:
    responses: dict[str, dict] = {
        "200": {
            "description": "ok",
            "content": {"application/json": {"schema": {"type": "object", "properties": {"id": {"type": "string"}}}}},
        }
    }
    for code in error_codes:
        responses[str(code)] = {"description": f"error {code}"}
    return {
        "openapi": "3.0.3",
        "info": {"title": title, "version": "1.0.0"},
        "paths": {
            "/things": {
                "get": {
                    "operationId": "get_thing",
                    "summary": "get a thing",
                    "tags": ["things"],
                    "responses": responses,
                }
            }
        },
    }


def generate(root, package, error_codes, core_package, force=True, quiet=True):
    root = Path(root)
    root.mkdir(parents=True, exist_ok=True)
    spec_path = root / (package.replace(".", "_") + ".json")
    spec_path.write_text(json.dumps(make_spec(package, error_codes)))
    sink = io.StringIO()
    with contextlib.redirect_stdout(sink) if quiet else contextlib.nullcontext():
        generate_client(
            spec_path=str(spec_path),
            project_root=str(root),
            output_package=package,
            core_package=core_package,
            force=force,
            no_postprocess=True,
            verbose=False,
        )
    return sink.getvalue()


def imports_ok(root, packages):
    """Import every package, its client module and all its endpoint modules in a fresh interpreter."""
    code = (
        "import importlib, pkgutil, sys\n"
        "for p in sys.argv[1:]:\n"
        "    importlib.import_module(p)\n"
        "    importlib.import_module(p + '.client')\n"
        "    e = importlib.import_module(p + '.endpoints')\n"
        "    for m in pkgutil.iter_modules(e.__path__):\n"
        "        importlib.import_module(p + '.endpoints.' + m.name)\n"
    )
    env = dict(os.environ)
    env["PYTHONPATH"] = str(root) + os.pathsep + env.get("PYTHONPATH", "")
    env["PYTHONDONTWRITEBYTECODE"] = "1"
    result = subprocess.run(
        [sys.executable, "-c", code, *packages], cwd=str(root), env=env, capture_output=True, text=True
    )
    lines = result.stderr.strip().splitlines()
    return result.returncode == 0, (lines[-1] if lines else "")
# ------------------------------------------------------------------------


def main() -> int:
    work = Path(tempfile.mkdtemp(prefix="c11_side2_"))
    try:
        root = work / "project"
        generate(root, "x.a", [404, 409], "x.core")
        ok, detail = imports_ok(root, ["x.a"])
        if not ok:
            print("unexpected: x.a does not import right after generation:", detail)
            return 2
        generate(root / "x", "b", [404, 410], "core")
        ok, detail = imports_ok(root, ["x.a"])
        if not ok:
            print("DEFECT: generating 'b' (root <p>/x, core 'core') broke 'x.a' (root <p>, core 'x.core')")
            print("  " + detail)
            return 1
        print("ok: x.a still imports")
        return 0
    finally:
        shutil.rmtree(work, ignore_errors=True)


if __name__ == "__main__":
    sys.exit(main())
