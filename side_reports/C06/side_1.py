"""Side finding 1 (unmodified tree): a `default` response that has content makes every undeclared non-2xx status
RETURN a value (decoded as the success type) when the transport hands the response back unraised.

Run: PYTHONPATH=<tree>/src /venv/bin/python side_1.py   (exit 1 = defect shows)
"""
import asyncio, importlib, json, logging, os, shutil, sys, tempfile
import httpx
logging.disable(logging.CRITICAL)
from pyopenapi_gen import generate_client

SPEC = {
    "openapi": "3.0.3", "info": {"title": "T", "version": "1"},
    "paths": {"/items/{id}": {"get": {
        "operationId": "getItem", "tags": ["items"], "summary": "s",
        "parameters": [{"name": "id", "in": "path", "required": True, "schema": {"type": "string"}}],
        "responses": {
            "200": {"description": "ok", "content": {"application/json": {"schema": {"$ref": "#/components/schemas/Item"}}}},
            "404": {"description": "nf"},
            "default": {"description": "any error", "content": {"application/json": {"schema": {"$ref": "#/components/schemas/Err"}}}},
        }}}},
    "components": {"schemas": {
        "Item": {"type": "object", "properties": {"id": {"type": "string"}}},
        "Err": {"type": "object", "properties": {"msg": {"type": "string"}}}}},
}


class RawTransport:
    """A custom transport that returns non-2xx responses unraised."""
    def __init__(self, status): self.status = status
    async def request(self, method, url, **kw):
        return httpx.Response(self.status, json={"msg": "boom"}, request=httpx.Request(method, url))
    async def close(self): pass


def main() -> int:
    root = tempfile.mkdtemp(prefix="c06_side1_")
    try:
        with open(os.path.join(root, "spec.json"), "w") as f:
            json.dump(SPEC, f)
        generate_client(spec_path=os.path.join(root, "spec.json"), project_root=root, output_package="side1cli",
                        force=True, no_postprocess=True)
        sys.path.insert(0, root)
        mod = importlib.import_module("side1cli.endpoints.items")
        exc = importlib.import_module("side1cli.core.exceptions")
        bad = []
        for status in (302, 400, 418, 500, 503):
            client = mod.ItemsClient(RawTransport(status), "http://x")
            try:
                value = asyncio.run(client.get_item("a"))
                bad.append(f"status {status}: call RETURNED {value!r} instead of raising")
            except exc.HTTPError as e:
                if e.status_code != status:
                    bad.append(f"status {status}: wrong status carried {e.status_code}")
        for line in bad:
            print("DEFECT:", line)
        return 1 if bad else 0
    finally:
        sys.path[:] = [p for p in sys.path if p != root]
        shutil.rmtree(root, ignore_errors=True)


if __name__ == "__main__":
    sys.exit(main())
