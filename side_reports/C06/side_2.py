"""Side finding 2 (unmodified tree): with a transport that returns non-2xx responses unraised, every 4xx/5xx status
that has no case of its own falls into the generated catch-all, which raises the BASE HTTPError - `except ClientError`
/ `except ServerError` handlers do not fire. The same happens for statuses covered only by a declared range
("4XX", "5XX" are ignored by the dispatch) and for a content-less `default` response.

Run: PYTHONPATH=<tree>/src /venv/bin/python side_2.py   (exit 1 = defect shows)
"""
import asyncio, importlib, json, logging, os, shutil, sys, tempfile
import httpx
logging.disable(logging.CRITICAL)
from pyopenapi_gen import generate_client

def op(op_id, extra):
    responses = {"204": {"description": "ok"}}
    responses.update(extra)
    return {"operationId": op_id, "tags": ["items"], "summary": "s", "responses": responses}

SPEC = {
    "openapi": "3.0.3", "info": {"title": "T", "version": "1"},
    "paths": {
        "/plain": {"delete": op("plainOp", {"404": {"description": "nf"}})},
        "/ranges": {"delete": op("rangeOp", {"4XX": {"description": "client"}, "5XX": {"description": "server"}})},
        "/default": {"delete": op("defaultOp", {"default": {"description": "error"}})},
    },
}


class RawTransport:
    def __init__(self, status): self.status = status
    async def request(self, method, url, **kw):
        return httpx.Response(self.status, json={"msg": "boom"}, request=httpx.Request(method, url))
    async def close(self): pass


def main() -> int:
    root = tempfile.mkdtemp(prefix="c06_side2_")
    try:
        with open(os.path.join(root, "spec.json"), "w") as f:
            json.dump(SPEC, f)
        generate_client(spec_path=os.path.join(root, "spec.json"), project_root=root, output_package="side2cli",
                        force=True, no_postprocess=True)
        sys.path.insert(0, root)
        mod = importlib.import_module("side2cli.endpoints.items")
        exc = importlib.import_module("side2cli.core.exceptions")
        bad = []
        for method in ("plain_op", "range_op", "default_op"):
            for status, family in ((400, exc.ClientError), (429, exc.ClientError), (500, exc.ServerError), (503, exc.ServerError)):
                client = mod.ItemsClient(RawTransport(status), "http://x")
                try:
                    asyncio.run(getattr(client, method)())
                    bad.append(f"{method} status {status}: returned")
                except exc.HTTPError as e:
                    if not isinstance(e, family):
                        bad.append(f"{method} status {status}: raised {type(e).__name__}, not a {family.__name__}")
        for line in bad:
            print("DEFECT:", line)
        return 1 if bad else 0
    finally:
        sys.path[:] = [p for p in sys.path if p != root]
        shutil.rmtree(root, ignore_errors=True)


if __name__ == "__main__":
    sys.exit(main())
