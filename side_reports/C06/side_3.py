"""Side finding 3 (unmodified tree): a schema named like a generated exception alias (NotFoundError, ConflictError,
Error499 ...), when it is imported into an endpoints module (it is a return / body / parameter type of some operation
of that tag), SHADOWS the exception class there: the model import is rendered after the
`from <core> import NotFoundError` line. `raise NotFoundError(response=response)` then calls the model dataclass and
the caller gets a TypeError instead of an HTTPError.

Run: PYTHONPATH=<tree>/src /venv/bin/python side_3.py   (exit 1 = defect shows)
"""
import asyncio, importlib, json, logging, os, shutil, sys, tempfile
import httpx
logging.disable(logging.CRITICAL)
from pyopenapi_gen import generate_client

def get(op_id, ok_schema, extra):
    responses = {"200": {"description": "ok", "content": {"application/json": {"schema": {"$ref": f"#/components/schemas/{ok_schema}"}}}}}
    responses.update(extra)
    return {"get": {"operationId": op_id, "tags": ["items"], "summary": "s", "responses": responses}}

SPEC = {
    "openapi": "3.0.3", "info": {"title": "T", "version": "1"},
    "paths": {
        # the last 'not found' problem report is itself a resource of this API
        "/problems/last": get("lastProblem", "NotFoundError", {}),
        "/items": get("getItem", "Item", {"404": {"description": "nf"}}),
    },
    "components": {"schemas": {
        "Item": {"type": "object", "properties": {"id": {"type": "string"}}},
        "NotFoundError": {"type": "object", "properties": {"detail": {"type": "string"}}}}},
}


class RawTransport:
    def __init__(self, status): self.status = status
    async def request(self, method, url, **kw):
        return httpx.Response(self.status, json={"detail": "boom"}, request=httpx.Request(method, url))
    async def close(self): pass


def run(spec, pkg, method, status, bad):
    root = tempfile.mkdtemp(prefix="c06_side3_")
    try:
        with open(os.path.join(root, "spec.json"), "w") as f:
            json.dump(spec, f)
        generate_client(spec_path=os.path.join(root, "spec.json"), project_root=root, output_package=pkg,
                        force=True, no_postprocess=True)
        sys.path.insert(0, root)
        mod = importlib.import_module(f"{pkg}.endpoints.items")
        exc = importlib.import_module(f"{pkg}.core.exceptions")
        client = mod.ItemsClient(RawTransport(status), "http://x")
        try:
            asyncio.run(getattr(client, method)())
            bad.append(f"{pkg}.{method} status {status}: returned")
        except exc.HTTPError:
            pass
        except Exception as e:  # noqa: BLE001
            bad.append(f"{pkg}.{method} status {status}: raised {type(e).__name__}: {e} (not an HTTPError)")
    finally:
        sys.path[:] = [p for p in sys.path if p != root]
        shutil.rmtree(root, ignore_errors=True)


def main() -> int:
    bad: list[str] = []
    run(SPEC, "side3a", "get_item", 404, bad)          # declared 404 -> alias shadowed by the model
    for line in bad:
        print("DEFECT:", line)
    return 1 if bad else 0


if __name__ == "__main__":
    sys.exit(main())
