"""Side finding 5 (unmodified tree, weaker link to C06): the exception-alias registry of a shared core lives inside
the core directory. When the shared core is hosted inside one client's package (core_package="alpha.core") and that
client is regenerated (force=True removes the whole alpha/ tree, registry included), the aliases of every OTHER client
that shares the core are dropped from exception_aliases.py. The other client's endpoints module then fails to import
(`cannot import name 'ConflictError' from 'alpha.core'`), so none of its operations can raise anything class-correct.

Run: PYTHONPATH=<tree>/src /venv/bin/python side_5.py   (exit 1 = defect shows)
"""
import importlib, json, logging, os, shutil, sys, tempfile
logging.disable(logging.CRITICAL)
from pyopenapi_gen import generate_client


def spec(code: int) -> dict:
    return {"openapi": "3.0.3", "info": {"title": "T", "version": "1"}, "paths": {"/x": {"get": {
        "operationId": "getX", "tags": ["x"], "summary": "s",
        "responses": {"204": {"description": "ok"}, str(code): {"description": "error"}}}}}}


def main() -> int:
    root = tempfile.mkdtemp(prefix="c06_side5_")
    try:
        def gen(sp: dict, pkg: str) -> None:
            path = os.path.join(root, pkg + ".json")
            with open(path, "w") as f:
                json.dump(sp, f)
            generate_client(spec_path=path, project_root=root, output_package=pkg, core_package="alpha.core",
                            force=True, no_postprocess=True)

        gen(spec(404), "alpha")  # hosts the shared core
        gen(spec(409), "beta")   # shares alpha.core; ConflictError is added to the aliases
        gen(spec(404), "alpha")  # alpha is regenerated
        sys.path.insert(0, root)
        try:
            importlib.import_module("beta.endpoints.x")
        except ImportError as e:
            print("DEFECT: beta's endpoints no longer import after alpha was regenerated:", e)
            return 1
        return 0
    finally:
        sys.path[:] = [p for p in sys.path if p != root]
        shutil.rmtree(root, ignore_errors=True)


if __name__ == "__main__":
    sys.exit(main())
