"""Side finding 4 (unmodified tree): the generated alias classes build their message from `response.text`. A custom
transport that really streams (returns the response of a streaming operation with its body still unread - the point of
a streaming download) makes a DECLARED 4xx/5xx status surface as httpx.ResponseNotRead instead of the alias class;
undeclared statuses (catch-all, no .text access) are fine.

Run: PYTHONPATH=<tree>/src /venv/bin/python side_4.py   (exit 1 = defect shows)
"""
import asyncio, importlib, json, logging, os, shutil, sys, tempfile
import httpx
logging.disable(logging.CRITICAL)
from pyopenapi_gen import generate_client

SPEC = {
    "openapi": "3.0.3", "info": {"title": "T", "version": "1"},
    "paths": {"/files/{id}": {"get": {
        "operationId": "download", "tags": ["files"], "summary": "s",
        "parameters": [{"name": "id", "in": "path", "required": True, "schema": {"type": "string"}}],
        "responses": {
            "200": {"description": "ok", "content": {"application/octet-stream": {"schema": {"type": "string", "format": "binary"}}}},
            "404": {"description": "nf"}, "503": {"description": "busy"}}}}},
}


class Body(httpx.AsyncByteStream):
    async def __aiter__(self):
        yield b"not found"


class StreamingTransport:
    """Returns responses whose body has not been read yet (as httpx's client.send(..., stream=True) does)."""
    def __init__(self, status): self.status = status
    async def request(self, method, url, **kw):
        return httpx.Response(self.status, stream=Body(), request=httpx.Request(method, url))
    async def close(self): pass


async def drain(agen):
    return [chunk async for chunk in agen]


def main() -> int:
    root = tempfile.mkdtemp(prefix="c06_side4_")
    try:
        with open(os.path.join(root, "spec.json"), "w") as f:
            json.dump(SPEC, f)
        generate_client(spec_path=os.path.join(root, "spec.json"), project_root=root, output_package="side4cli",
                        force=True, no_postprocess=True)
        sys.path.insert(0, root)
        mod = importlib.import_module("side4cli.endpoints.files")
        exc = importlib.import_module("side4cli.core.exceptions")
        bad = []
        for status in (404, 503, 500):
            client = mod.FilesClient(StreamingTransport(status), "http://x")
            try:
                asyncio.run(drain(client.download("a")))
                bad.append(f"status {status}: returned")
            except exc.HTTPError:
                pass
            except Exception as e:  # noqa: BLE001
                bad.append(f"status {status}: raised {type(e).__module__}.{type(e).__name__} (not an HTTPError)")
        for line in bad:
            print("DEFECT:", line)
        return 1 if bad else 0
    finally:
        sys.path[:] = [p for p in sys.path if p != root]
        shutil.rmtree(root, ignore_errors=True)


if __name__ == "__main__":
    sys.exit(main())
