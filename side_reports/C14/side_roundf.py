"""
Side findings observed on the UNMODIFIED tree while working on C14 (they are not caused by the seeded change).

Run as:  PYTHONPATH=/repo/src /venv/bin/python side_findings.py

For every finding the script writes a minimal spec, generates a client into a temp dir, calls the public
runtime functions of the generated client (<pkg>.core.cattrs_converter.structure_from_dict /
unstructure_to_dict) on the generated union alias, and prints OBSERVED vs EXPECTED.
The script always exits 0; it is a report, not a test.
"""

from __future__ import annotations

import importlib
import json
import logging
import os
import shutil
import sys
import tempfile
from pathlib import Path

logging.disable(logging.CRITICAL)

import pyopenapi_gen  # noqa: E402
from pyopenapi_gen import generate_client  # noqa: E402


def ref(name: str) -> dict:
    return {"$ref": f"#/components/schemas/{name}"}


def spec_for(schemas: dict, response_schema: str) -> dict:
    """One GET operation returning `response_schema`; everything else is in components/schemas."""
    return {
        "openapi": "3.0.3",
        "info": {"title": "side finding", "version": "1"},
        "paths": {
            "/pet": {
                "get": {
                    "operationId": "getPet",
                    "tags": ["pets"],
                    "summary": "get a pet",
                    "responses": {
                        "200": {
                            "description": "ok",
                            "content": {"application/json": {"schema": ref(response_schema)}},
                        }
                    },
                }
            }
        },
        "components": {"schemas": schemas},
    }


def generate(spec: dict, package: str) -> Path:
    root = Path(tempfile.mkdtemp(prefix="c14_side_"))
    (root / "spec.json").write_text(json.dumps(spec))
    generate_client(
        spec_path=str(root / "spec.json"),
        project_root=str(root),
        output_package=package,
        force=True,
        no_postprocess=True,
    )
    sys.path.insert(0, str(root))
    return root


def cleanup(root: Path, package: str) -> None:
    if str(root) in sys.path:
        sys.path.remove(str(root))
    for name in [m for m in sys.modules if m == package or m.startswith(package + ".")]:
        del sys.modules[name]
    shutil.rmtree(root, ignore_errors=True)


def strip_nulls(value):
    if isinstance(value, dict):
        return {k: strip_nulls(v) for k, v in value.items() if v is not None and v != []}
    if isinstance(value, list):
        return [strip_nulls(v) for v in value]
    return value


def try_roundtrip(conv, payload, target) -> str:
    """structure_from_dict(payload, target) then unstructure_to_dict(value); return a one-line description."""
    try:
        value = conv.structure_from_dict(payload, target)
    except Exception as exc:  # noqa: BLE001
        first_line = str(exc).splitlines()[0]
        return f"ERROR  {type(exc).__name__}: {first_line[:220]}"
    encoded = strip_nulls(json.loads(json.dumps(conv.unstructure_to_dict(value))))
    same = "round-trips" if encoded == strip_nulls(payload) else f"RE-ENCODES DIFFERENTLY -> {encoded!r}"
    return f"OK     {value!r}  ({same})"


def show_file(path: Path, only_lines_containing: tuple[str, ...] | None = None) -> None:
    print(f"    --- {path.name}")
    for line in path.read_text().splitlines():
        if only_lines_containing is None or any(s in line for s in only_lines_containing):
            print(f"    | {line}")


# ---------------------------------------------------------------------------------------------------------------------
# Finding 1: two discriminator mapping keys that point at the same schema ("aliases")
# ---------------------------------------------------------------------------------------------------------------------
def finding_1() -> None:
    print("=" * 110)
    print("FINDING 1: discriminator mapping with two values for one schema - one of the two values becomes undecodable")
    print("=" * 110)
    schemas = {
        "Cat": {
            "type": "object",
            "required": ["kind"],
            "properties": {"kind": {"type": "string"}, "indoor": {"type": "boolean"}},
        },
        "Dog": {
            "type": "object",
            "required": ["kind"],
            "properties": {"kind": {"type": "string"}, "bark": {"type": "integer"}},
        },
        "Pet": {
            "oneOf": [ref("Cat"), ref("Dog")],
            "discriminator": {
                "propertyName": "kind",
                "mapping": {
                    "cat": "#/components/schemas/Cat",
                    "dog": "#/components/schemas/Dog",
                    "puppy": "#/components/schemas/Dog",  # legal: several values may select the same schema
                },
            },
        },
    }
    spec = spec_for(schemas, "Pet")
    print("spec (components.schemas):")
    print("   ", json.dumps(schemas))
    pkg = "side1client"
    root = generate(spec, pkg)
    try:
        conv = importlib.import_module(f"{pkg}.core.cattrs_converter")
        Pet = importlib.import_module(f"{pkg}.models.pet").Pet
        print("generated models/pet_kind_enum.py (the enum every variant's `kind` field is typed with):")
        show_file(root / pkg / "models" / "pet_kind_enum.py", (" = ",))
        print("generated models/dog.py field:")
        show_file(root / pkg / "models" / "dog.py", ("kind:",))
        print("calls: structure_from_dict(payload, Pet) then unstructure_to_dict(value)   [Pet = <pkg>.models.pet.Pet]")
        for payload, expected in [
            ({"kind": "cat", "indoor": True}, "Cat, round-trips"),
            ({"kind": "puppy", "bark": 1}, "Dog, round-trips"),
            ({"kind": "dog", "bark": 1}, "Dog, round-trips  ('dog' is a mapped value)"),
        ]:
            print(f"  payload  {payload!r}")
            print(f"    EXPECTED {expected}")
            print(f"    OBSERVED {try_roundtrip(conv, payload, Pet)}")
        print(
            "cause: core/parsing/transformers/discriminator_enum_collector.py builds the reverse map\n"
            "       discriminator_value_by_variant[variant_name] = disc_value, so for two values mapped to Dog only the\n"
            "       LAST one ('puppy') survives; the unified enum PetKindEnum gets CAT and PUPPY but no DOG, and Dog.kind is\n"
            "       typed PetKindEnum. PetDiscriminator.get_mapping() still maps 'dog' -> Dog, so the lookup succeeds and\n"
            "       then structuring Dog fails on kind='dog'. (Which value is lost depends on the mapping's key order.)"
        )
    finally:
        cleanup(root, pkg)


# ---------------------------------------------------------------------------------------------------------------------
# Finding 2: mapped schema whose name contains a digit / an acronym / is not PascalCase
# ---------------------------------------------------------------------------------------------------------------------
def finding_2() -> None:
    print()
    print("=" * 110)
    print("FINDING 2: discriminator mapping to a schema named CatV2 / HTTPDog - get_mapping() imports a module/class")
    print("           that does not exist, so EVERY payload of the union fails at decode time (generation succeeds)")
    print("=" * 110)

    def variants(cat_name: str, dog_name: str) -> dict:
        return {
            cat_name: {
                "type": "object",
                "required": ["kind"],
                "properties": {"kind": {"type": "string"}, "indoor": {"type": "boolean"}},
            },
            dog_name: {
                "type": "object",
                "required": ["kind"],
                "properties": {"kind": {"type": "string"}, "bark": {"type": "integer"}},
            },
            "Pet": {
                "oneOf": [ref(cat_name), ref(dog_name)],
                "discriminator": {
                    "propertyName": "kind",
                    "mapping": {
                        "cat": f"#/components/schemas/{cat_name}",
                        "dog": f"#/components/schemas/{dog_name}",
                    },
                },
            },
        }

    cases = [
        ("2a digit in the name", "CatV2", "Dog", "side2aclient"),
        ("2b acronym in the name", "Cat", "HTTPDog", "side2bclient"),
        ("2c control: plain PascalCase names", "Cat", "Dog", "side2cclient"),
    ]
    for title, cat_name, dog_name, pkg in cases:
        print(f"--- case {title}: variants {cat_name!r}, {dog_name!r}")
        schemas = variants(cat_name, dog_name)
        print("spec (components.schemas):")
        print("   ", json.dumps(schemas))
        root = generate(spec_for(schemas, "Pet"), pkg)
        try:
            conv = importlib.import_module(f"{pkg}.core.cattrs_converter")
            Pet = importlib.import_module(f"{pkg}.models.pet").Pet
            print("model files emitted:", sorted(f for f in os.listdir(root / pkg / "models") if f.endswith(".py")))
            print("generated models/pet.py (imports, get_mapping body, alias):")
            show_file(root / pkg / "models" / "pet.py", ("import ", '": ', "Pet: TypeAlias"))
            print("calls: structure_from_dict(payload, Pet) then unstructure_to_dict(value)")
            for payload, expected in [
                ({"kind": "cat", "indoor": True}, f"{cat_name} instance, round-trips"),
                ({"kind": "dog", "bark": 1}, f"{dog_name} instance, round-trips"),
            ]:
                print(f"  payload  {payload!r}")
                print(f"    EXPECTED {expected}")
                print(f"    OBSERVED {try_roundtrip(conv, payload, Pet)}")
        finally:
            cleanup(root, pkg)
    print(
        "cause: core/writers/python_construct_renderer.py::render_alias writes the body of get_mapping() from the RAW\n"
        "       mapping target (schema_ref.split('/')[-1]) and derives the module with its own _to_module_name() regex,\n"
        "       while the model files/classes are named by the emitter (NameSanitizer: CatV2 -> cat_v_2.py,\n"
        "       HTTPDog -> class HttpDog in http_dog.py). The module-level imports and the Union[...] in the same file\n"
        "       use the emitter's names and are fine; only the lazy imports inside get_mapping() are wrong, so the\n"
        "       generated package imports cleanly and the failure only appears when a payload is decoded.\n"
        "note (2b only): the acronym-named schema is additionally emitted TWICE - http_dog.py (class HttpDog, kind typed\n"
        "       with the unified PetKindEnum) and http_dog_2.py (class HttpDog2, kind: str) - and the Union refers to\n"
        "       HttpDog2. The same double emission happens for an undiscriminated oneOf [Cat, HTTPDog], so it is a naming /\n"
        "       registration issue for schema names that the sanitizer changes (HTTPDog -> HttpDog), not a discriminator one."
    )


def main() -> int:
    print("pyopenapi_gen imported from:", pyopenapi_gen.__file__)
    finding_1()
    finding_2()
    return 0


if __name__ == "__main__":
    sys.exit(main())
