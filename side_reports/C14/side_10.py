#!/usr/bin/env python3
"""Side finding 10: primitive variants are coerced to the first primitive listed

Union[int, str] / Union[str, int] / Union[int, float]: the 'other variants' loop hands the value to cattrs' primitive
hooks, which CONVERT (int("5"), str(5), int(1.5)) instead of checking the type. "5" comes back as 5, 5 as "5" and
1.5 as 1, depending only on the order of the variants in the spec.

Run as:  PYTHONPATH=<tree>/src /venv/bin/python side_10.py
Exit 1 when the defect shows (message on stderr), exit 0 when it does not.
"""
import asyncio, dataclasses, importlib, json, logging, shutil, sys, tempfile, warnings
from pathlib import Path

logging.disable(logging.CRITICAL)
warnings.simplefilter("ignore")

from pyopenapi_gen import generate_client

PKG = "c14_side_10_client"


def R(name):
    return {"$ref": "#/components/schemas/" + name}


def op(operation_id, schema):
    content = {"application/json": {"schema": schema}}
    return {"get": {"operationId": operation_id, "responses": {"200": {"description": "ok", "content": content}}}}


def generate(schemas, paths=None, openapi="3.0.3"):
    """Generate a client for the schemas into a temp dir, put it on sys.path, return (root, models, converter)."""
    first = next(iter(schemas))
    spec = {
        "openapi": openapi,
        "info": {"title": "t", "version": "1"},
        "paths": paths or {"/x": op("getX", R(first))},
        "components": {"schemas": schemas},
    }
    root = Path(tempfile.mkdtemp(prefix="c14_side_"))
    (root / "spec.json").write_text(json.dumps(spec))
    generate_client(spec_path=str(root / "spec.json"), project_root=str(root), output_package=PKG, force=True,
                    no_postprocess=True)
    sys.path.insert(0, str(root))
    return root


def cleanup(root):
    if str(root) in sys.path:
        sys.path.remove(str(root))
    shutil.rmtree(root, ignore_errors=True)


def encode(conv, value):
    if dataclasses.is_dataclass(value) and not isinstance(value, type):
        return conv.unstructure_to_dict(value)
    if isinstance(value, list):
        return [encode(conv, v) for v in value]
    return value


def same(encoded, payload):
    """Re-encoded document equals the payload (optional members the payload left out may come back as null)."""
    if isinstance(payload, dict):
        return (isinstance(encoded, dict) and all(k in encoded and same(encoded[k], v) for k, v in payload.items())
                and all(k in payload or v is None or v == [] for k, v in encoded.items()))
    if isinstance(payload, list):
        return isinstance(encoded, list) and len(encoded) == len(payload) and all(map(same, encoded, payload))
    return type(encoded) is type(payload) and encoded == payload or (
        isinstance(encoded, str) and isinstance(payload, str) and str.__eq__(encoded, payload))


def round_trip(conv, payload, target, expect=None):
    """None when payload decodes (as class `expect`, if given) and re-encodes intact, else a description."""
    try:
        value = conv.structure_from_dict(payload, target)
    except Exception as exc:
        return f"{payload!r} is not decoded: {(str(exc).splitlines() or [type(exc).__name__])[0]}"
    if expect is not None and type(value).__name__ != expect:
        return f"{payload!r} (a {expect}) is decoded as {value!r} and re-encodes to {encode(conv, value)!r}"
    encoded = encode(conv, value)
    if not same(encoded, payload):
        return f"{payload!r} is decoded as {value!r} and re-encodes to {encoded!r}"
    return None


def main():
    problems = []
    root = None
    try:
        schemas = dict(
            Holder={"type": "object", "properties": {
                "intFirst": {"oneOf": [{"type": "integer"}, {"type": "string"}]},
                "strFirst": {"oneOf": [{"type": "string"}, {"type": "integer"}]},
                "intThenNumber": {"oneOf": [{"type": "integer"}, {"type": "number"}]}}},
        )
        root = generate(schemas)
        models = importlib.import_module(PKG + ".models")
        conv = importlib.import_module(PKG + ".core.cattrs_converter")
        for payload in ({"intFirst": "5"}, {"intFirst": 5}, {"strFirst": 5}, {"strFirst": "5"}, {"intThenNumber": 1.5}):
            problem = round_trip(conv, payload, models.Holder)
            if problem:
                problems.append(problem)
    finally:
        if root is not None:
            cleanup(root)
    if problems:
        print("DEFECT (primitive variants coerced):", file=sys.stderr)
        for p in problems:
            print("  - " + str(p), file=sys.stderr)
        return 1
    print("no defect observed (primitive variants coerced)")
    return 0


if __name__ == "__main__":
    sys.exit(main())
