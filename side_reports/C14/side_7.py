#!/usr/bin/env python3
"""Side finding 7: a response typed as a named array of a union is returned undecoded

PetList: {type: array, items: {$ref: Pet}} as a response schema. The response handler decides between
structure_from_dict() and cast() by asking whether the array's item type 'is a dataclass'; a union alias is not, so
it emits `return cast(PetList, response.json())`: the caller gets raw dicts where the signature promises
List[Cat | Dog]. The same items typed inline (`type: array, items: {$ref: Pet}` directly in the response) ARE decoded.

Run as:  PYTHONPATH=<tree>/src /venv/bin/python side_7.py
Exit 1 when the defect shows (message on stderr), exit 0 when it does not.
"""
import asyncio, dataclasses, importlib, json, logging, shutil, sys, tempfile, warnings
from pathlib import Path

logging.disable(logging.CRITICAL)
warnings.simplefilter("ignore")

from pyopenapi_gen import generate_client

PKG = "c14_side_7_client"


def R(name):
    return {"$ref": "#/components/schemas/" + name}


def op(operation_id, schema):
    content = {"application/json": {"schema": schema}}
    return {"get": {"operationId": operation_id, "responses": {"200": {"description": "ok", "content": content}}}}


def generate(schemas, paths=None, openapi="3.0.3"):
    """Generate a client for the schemas into a temp dir, put it on sys.path, return (root, models, converter)."""
    first = next(iter(schemas))
    spec = {
        "openapi": openapi,
        "info": {"title": "t", "version": "1"},
        "paths": paths or {"/x": op("getX", R(first))},
        "components": {"schemas": schemas},
    }
    root = Path(tempfile.mkdtemp(prefix="c14_side_"))
    (root / "spec.json").write_text(json.dumps(spec))
    generate_client(spec_path=str(root / "spec.json"), project_root=str(root), output_package=PKG, force=True,
                    no_postprocess=True)
    sys.path.insert(0, str(root))
    return root


def cleanup(root):
    if str(root) in sys.path:
        sys.path.remove(str(root))
    shutil.rmtree(root, ignore_errors=True)


def encode(conv, value):
    if dataclasses.is_dataclass(value) and not isinstance(value, type):
        return conv.unstructure_to_dict(value)
    if isinstance(value, list):
        return [encode(conv, v) for v in value]
    return value


def same(encoded, payload):
    """Re-encoded document equals the payload (optional members the payload left out may come back as null)."""
    if isinstance(payload, dict):
        return (isinstance(encoded, dict) and all(k in encoded and same(encoded[k], v) for k, v in payload.items())
                and all(k in payload or v is None or v == [] for k, v in encoded.items()))
    if isinstance(payload, list):
        return isinstance(encoded, list) and len(encoded) == len(payload) and all(map(same, encoded, payload))
    return type(encoded) is type(payload) and encoded == payload or (
        isinstance(encoded, str) and isinstance(payload, str) and str.__eq__(encoded, payload))


def round_trip(conv, payload, target, expect=None):
    """None when payload decodes (as class `expect`, if given) and re-encodes intact, else a description."""
    try:
        value = conv.structure_from_dict(payload, target)
    except Exception as exc:
        return f"{payload!r} is not decoded: {(str(exc).splitlines() or [type(exc).__name__])[0]}"
    if expect is not None and type(value).__name__ != expect:
        return f"{payload!r} (a {expect}) is decoded as {value!r} and re-encodes to {encode(conv, value)!r}"
    encoded = encode(conv, value)
    if not same(encoded, payload):
        return f"{payload!r} is decoded as {value!r} and re-encodes to {encoded!r}"
    return None


def main():
    problems = []
    root = None
    try:
        class Canned:
            document = None
            async def request(self, method, url, **kwargs):
                import httpx
                return httpx.Response(200, json=self.document, request=httpx.Request(method, url))
            async def close(self):
                return None

        schemas = dict(
            PetList={"type": "array", "items": R("Pet")},
            Pet={"oneOf": [R("Cat"), R("Dog")],
                 "discriminator": {"propertyName": "kind", "mapping": {"cat": "#/components/schemas/Cat",
                                                                        "dog": "#/components/schemas/Dog"}}},
            Cat={"type": "object", "required": ["kind"],
                 "properties": {"kind": {"type": "string"}, "huntingSkill": {"type": "string"}}},
            Dog={"type": "object", "required": ["kind"],
                 "properties": {"kind": {"type": "string"}, "packSize": {"type": "integer"}}},
        )
        paths = {"/named": op("listNamed", R("PetList")), "/inline": op("listInline", {"type": "array", "items": R("Pet")})}
        root = generate(schemas, paths)
        client_mod = importlib.import_module(PKG + ".client")
        config_mod = importlib.import_module(PKG + ".core.config")
        transport = Canned()
        transport.document = [{"kind": "dog", "packSize": 3}, {"kind": "cat", "huntingSkill": "lazy"}]
        api = client_mod.APIClient(config_mod.ClientConfig(base_url="http://pets.invalid"), transport=transport)
        for name, call in (("listInline", api.default.list_inline), ("listNamed", api.default.list_named)):
            result = asyncio.run(call())
            kinds = [type(item).__name__ for item in result]
            if kinds != ["Dog", "Cat"]:
                problems.append(f"{name}() returned items of type {kinds}, expected ['Dog', 'Cat']")
    finally:
        if root is not None:
            cleanup(root)
    if problems:
        print("DEFECT (named array of union response is cast, not structured):", file=sys.stderr)
        for p in problems:
            print("  - " + str(p), file=sys.stderr)
        return 1
    print("no defect observed (named array of union response is cast, not structured)")
    return 0


if __name__ == "__main__":
    sys.exit(main())
