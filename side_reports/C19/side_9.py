#!/usr/bin/env python
"""Side finding 9 on the UNMODIFIED tree (property C19).

two operations returning inline arrays of inline objects: the item models are numbered AnonymousArrayItem<n> in path order, so reordering paths swaps their fields and the return types

Run as:  PYTHONPATH=<tree>/src /venv/bin/python side_9.py   (exit 1 when the defect shows)
"""
from __future__ import annotations

import ast
import contextlib
import io
import json
import logging
import shutil
import sys
import tempfile
import warnings
from pathlib import Path

from pyopenapi_gen.generator.client_generator import ClientGenerator

logging.disable(logging.CRITICAL)


def ref(name):
    return {"$ref": f"#/components/schemas/{name}"}


def obj(**properties):
    return {"type": "object", "properties": properties}


def ok(schema, media_type="application/json"):
    return {"description": "ok", "content": {media_type: {"schema": schema}}}


def get(operation_id, responses):
    return {"get": {"operationId": operation_id, "responses": responses}}


def doc(paths, schemas=None, **components):
    spec = {"openapi": "3.0.3", "info": {"title": "T", "version": "1"}, "paths": paths}
    if schemas is not None:
        components["schemas"] = schemas
    if components:
        spec["components"] = components
    return spec


def reordered(mapping, *keys):
    """The same mapping with its entries in the given order (default: reversed)."""
    keys = keys or tuple(reversed(list(mapping)))
    return {key: mapping[key] for key in keys}


def manifest_of(spec_text, file_name="spec.json"):
    """Generate a client and describe it: models -> fields / bases / alias, endpoint classes -> signatures."""
    scratch = Path(tempfile.mkdtemp(prefix="c19_side_"))
    try:
        (scratch / file_name).write_text(spec_text, encoding="utf-8")
        root = scratch / "project"
        root.mkdir()
        try:
            with warnings.catch_warnings(), contextlib.redirect_stdout(io.StringIO()):
                warnings.simplefilter("ignore")
                ClientGenerator(verbose=False).generate(
                    spec_path=str(scratch / file_name),
                    project_root=root,
                    output_package="client",
                    force=True,
                    no_postprocess=True,
                )
        except Exception as error:  # a rejected rendering is a difference as well
            return {"generation failed": f"{type(error).__name__}: {str(error)[:200]}"}
        package = root / "client"
        models, clients = {}, {}
        for module in sorted((package / "models").glob("*.py")):
            if module.name == "__init__.py":
                continue
            for node in ast.parse(module.read_text(encoding="utf-8")).body:
                if isinstance(node, ast.ClassDef):
                    fields = {}
                    for statement in node.body:
                        if isinstance(statement, ast.AnnAssign) and isinstance(statement.target, ast.Name):
                            fields[statement.target.id] = ast.unparse(statement.annotation)
                        elif isinstance(statement, ast.Assign) and isinstance(statement.targets[0], ast.Name):
                            fields[statement.targets[0].id] = "= " + ast.unparse(statement.value)
                    models[node.name] = {"bases": [ast.unparse(b) for b in node.bases], "fields": fields}
                elif isinstance(node, ast.AnnAssign) and isinstance(node.target, ast.Name) and node.value is not None:
                    models[node.target.id] = {"alias": ast.unparse(node.value)}
        for module in sorted((package / "endpoints").glob("*.py")):
            if module.name == "__init__.py":
                continue
            for node in ast.parse(module.read_text(encoding="utf-8")).body:
                if isinstance(node, ast.ClassDef) and not node.name.endswith("Protocol"):
                    methods = {}
                    for statement in node.body:
                        if isinstance(statement, (ast.FunctionDef, ast.AsyncFunctionDef)):
                            if not statement.name.startswith("__"):
                                returns = ast.unparse(statement.returns) if statement.returns is not None else ""
                                methods.setdefault(statement.name, []).append(
                                    f"({ast.unparse(statement.args)}) -> {returns}"
                                )
                    clients[node.name] = {name: sorted(sigs) for name, sigs in methods.items()}
        return {"models": models, "clients": clients}
    finally:
        shutil.rmtree(scratch, ignore_errors=True)


def differences(a, b, where=""):
    if isinstance(a, dict) and isinstance(b, dict):
        found = []
        for key in sorted(set(a) | set(b)):
            if key not in a:
                found.append(f"{where}/{key}: only in the second: {b[key]!r}")
            elif key not in b:
                found.append(f"{where}/{key}: only in the first: {a[key]!r}")
            else:
                found.extend(differences(a[key], b[key], f"{where}/{key}"))
        return found
    return [] if a == b else [f"{where}: {a!r} != {b!r}"]


def check(title, first_label, first, second_label, second):
    """first / second: (spec_text, file_name). Exit 1 when the two equivalent documents give different clients."""
    found = differences(manifest_of(*first), manifest_of(*second))
    if found:
        print(f"DEFECT: {title}")
        print(f"  first : {first_label}")
        print(f"  second: {second_label}")
        for line in found[:10]:
            print("   ", line[:320])
        sys.exit(1)
    print(f"no difference: {title}")
    sys.exit(0)


def as_json(spec):
    return json.dumps(spec, indent=2), "spec.json"


TITLE = 'two operations returning inline arrays of inline objects: the item models are numbered AnonymousArrayItem<n> in path order, so reordering paths swaps their fields and the return types'

paths = {
    "/a": get("listA", {"200": ok({"type": "array", "items": obj(a={"type": "string"})})}),
    "/b": get("listB", {"200": ok({"type": "array", "items": obj(b={"type": "integer"})})}),
}
check(TITLE,
      "paths in order /a, /b", as_json(doc(paths, {})),
      "paths in order /b, /a", as_json(doc(reordered(paths), {})))
