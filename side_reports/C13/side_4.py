#!/usr/bin/env python
"""Side finding 4 (unmodified tree): a streaming operation whose only declared response is not a 2xx.

The return annotation (AsyncIterator[bytes]) comes from the "primary" response, which falls back to the first
declared response when there is no 2xx / default one (here: a 302 that streams bytes, the same happens with
"3XX" or with a lone 404).  The response handler only writes the "async for ...: yield" loop for 2xx / 2XX /
default responses, so the generated client method has no yield at all: it is a coroutine function annotated
"-> AsyncIterator[bytes]", while its Protocol stub is a plain def and its mock an async generator.

Run as:  PYTHONPATH=<tree>/src /venv/bin/python side_4.py   (exit 1 when the defect shows, 0 otherwise)
"""

from __future__ import annotations

import importlib
import inspect
import json
import logging
import shutil
import sys
import tempfile
import traceback
import uuid
import warnings
from pathlib import Path

logging.disable(logging.CRITICAL)
warnings.simplefilter("ignore")

from pyopenapi_gen import generate_client  # noqa: E402

JSON_OK = {
    "description": "ok",
    "content": {"application/json": {"schema": {"type": "object", "properties": {"a": {"type": "string"}}}}},
}
BINARY_STREAM = {
    "description": "bytes",
    "content": {"application/octet-stream": {"schema": {"type": "string", "format": "binary"}}},
}
EVENT_STREAM = {"description": "events", "content": {"text/event-stream": {"schema": {"type": "string"}}}}


def make_spec(paths: dict, schemas: dict | None = None) -> dict:
    spec = {"openapi": "3.1.0", "info": {"title": "Side finding", "version": "1"}, "paths": paths}
    if schemas:
        spec["components"] = {"schemas": schemas}
    return spec


def generate(spec: dict) -> tuple[Path, str]:
    root = Path(tempfile.mkdtemp(prefix="c13_side_"))
    pkg = "side_" + uuid.uuid4().hex[:8]
    (root / "spec.json").write_text(json.dumps(spec))
    generate_client(
        spec_path=str(root / "spec.json"), project_root=str(root), output_package=pkg, force=True, no_postprocess=True
    )
    sys.path.insert(0, str(root))
    return root, pkg


def cleanup(root: Path, pkg: str) -> None:
    if str(root) in sys.path:
        sys.path.remove(str(root))
    for mod in [m for m in sys.modules if m == pkg or m.startswith(pkg + ".")]:
        del sys.modules[mod]
    shutil.rmtree(root, ignore_errors=True)


def nature(fn: object) -> str:
    if inspect.isasyncgenfunction(fn):
        return "async-generator function"
    if inspect.iscoroutinefunction(fn):
        return "coroutine function"
    return "plain function"


def methods(cls: type) -> dict[str, object]:
    return {n: v for n, v in vars(cls).items() if inspect.isfunction(v) and not n.startswith("_")}


def compare_surfaces(pkg: str) -> list[str]:
    """Compare every endpoint client with its Protocol and its mock, and APIClient with MockAPIClient."""
    problems: list[str] = []
    endpoints = importlib.import_module(f"{pkg}.endpoints")
    client_mod = importlib.import_module(f"{pkg}.client")
    mocks = importlib.import_module(f"{pkg}.mocks")
    for cname in sorted(n for n in endpoints.__all__ if not n.endswith("Protocol")):
        client_cls, proto_cls = getattr(endpoints, cname), getattr(endpoints, cname + "Protocol")
        mock_cls = getattr(mocks, "Mock" + cname, None)
        if mock_cls is None:
            problems.append(f"{cname}: the mocks package has no Mock{cname} (it exports {sorted(mocks.__all__)})")
            continue
        cm, pm, mm = methods(client_cls), methods(proto_cls), methods(mock_cls)
        if not (set(cm) == set(pm) == set(mm)):
            problems.append(f"{cname}: method sets differ client={sorted(cm)} protocol={sorted(pm)} mock={sorted(mm)}")
        for name in sorted(set(cm) & set(pm) & set(mm)):
            sigs = [str(inspect.signature(d[name])) for d in (cm, pm, mm)]
            if len(set(sigs)) != 1:
                problems.append(f"{cname}.{name}: signatures differ client={sigs[0]} protocol={sigs[1]} mock={sigs[2]}")
            nc, np_, nm = nature(cm[name]), nature(pm[name]), nature(mm[name])
            expected_proto = "plain function" if nc == "async-generator function" else nc
            if nc != nm or np_ != expected_proto:
                problems.append(
                    f"{cname}.{name}{sigs[0]}: nature differs: client = {nc}, protocol = {np_}, mock = {nm}"
                )
    api_props = {n for n, v in vars(client_mod.APIClient).items() if isinstance(v, property)}
    mock_props = {n for n, v in vars(mocks.MockAPIClient).items() if isinstance(v, property)}
    if api_props != mock_props:
        problems.append(f"APIClient tag properties {sorted(api_props)} != MockAPIClient tag properties {sorted(mock_props)}")
    return problems


def report(title: str, problems: list[str]) -> int:
    if problems:
        print(f"DEFECT SHOWS ({title}):")
        for p in problems:
            print(" - " + p)
        return 1
    print(f"no defect ({title})")
    return 0


def main() -> int:
    spec = make_spec(
        {
            "/download": {
                "get": {"operationId": "followDownload", "tags": ["files"], "responses": {"302": BINARY_STREAM}}
            }
        }
    )
    root, pkg = generate(spec)
    try:
        problems = compare_surfaces(pkg)
    finally:
        cleanup(root, pkg)
    return report("streaming operation with only a 302 response", problems)


if __name__ == "__main__":
    sys.exit(main())
