"""Side finding (UNMODIFIED tree): tag "pet" + schema "Pet" + a multi-content-type request body -> endpoints do not import.

Run as:  PYTHONPATH=/repo/src /venv/bin/python side_tag_schema.py
Exit status 1 when the generated package fails to import (prints the error line), 0 when it imports.

Ingredients (all three are needed):
  1. a tag whose module name equals the module stem of a schema        (tag "pet"  -> endpoints/pet.py,
                                                                          schema Pet -> models/pet.py)
  2. that schema used as the application/json request body of an operation under that tag
  3. the request body declares MORE THAN ONE content type (here json + multipart), i.e. the @overload path

With only 1+2 (single content type), or a GET returning $ref Pet, the package imports fine: the annotation is
merely the quoted string "Pet" (and Pet is not imported into endpoints/pet.py).
"""

from __future__ import annotations

import sys

sys.dont_write_bytecode = True

import json  # noqa: E402
import logging  # noqa: E402
import os  # noqa: E402
import shutil  # noqa: E402
import subprocess  # noqa: E402
import tempfile  # noqa: E402
import warnings  # noqa: E402
from pathlib import Path  # noqa: E402

logging.disable(logging.CRITICAL)
warnings.simplefilter("ignore")

from pyopenapi_gen import generate_client  # noqa: E402

PET = {"$ref": "#/components/schemas/Pet"}

SPEC = {
    "openapi": "3.0.3",
    "info": {"title": "Side finding", "version": "1"},
    "paths": {
        "/pet": {
            "post": {
                "operationId": "updatePet",
                "tags": ["pet"],  # -> endpoints/pet.py, same basename as models/pet.py
                "requestBody": {
                    "required": True,
                    "content": {
                        "application/json": {"schema": PET},
                        # second content type -> @overload path (generate_implementation_signature)
                        "multipart/form-data": {
                            "schema": {"type": "object", "properties": {"f": {"type": "string", "format": "binary"}}}
                        },
                    },
                },
                "responses": {"200": {"description": "ok", "content": {"application/json": {"schema": PET}}}},
            }
        }
    },
    "components": {
        "schemas": {"Pet": {"type": "object", "properties": {"id": {"type": "integer"}, "name": {"type": "string"}}}}
    },
}


def main() -> int:
    root = Path(tempfile.mkdtemp(prefix="side_tag_schema_"))
    try:
        spec_path = root / "openapi.json"
        spec_path.write_text(json.dumps(SPEC))
        generate_client(str(spec_path), str(root), "side_client", force=True, no_postprocess=True)

        env = dict(os.environ, PYTHONDONTWRITEBYTECODE="1")
        env["PYTHONPATH"] = os.pathsep.join([str(root), env.get("PYTHONPATH", "")])
        proc = subprocess.run(
            [sys.executable, "-c", "import side_client.endpoints; print('imported fine')"],
            capture_output=True,
            text=True,
            env=env,
        )
        if proc.returncode == 0:
            print(proc.stdout.strip())
            return 0

        err_lines = [ln for ln in proc.stderr.strip().splitlines() if ln.strip()]
        print("import side_client.endpoints FAILED:")
        # offending source line (the two lines python prints above the exception) and the exception itself
        for ln in err_lines[-4:]:
            print("   ", ln.replace(str(root), "<out>"))
        print()
        print("generated endpoints/pet.py, implementation signature of update_pet:")
        src = (root / "side_client" / "endpoints" / "pet.py").read_text().splitlines()
        for i, ln in enumerate(src):
            if '"Pet" | None' in ln:
                for ctx in src[max(0, i - 4) : i + 4]:
                    print("   ", ctx)
                break
        return 1
    finally:
        shutil.rmtree(root, ignore_errors=True)


if __name__ == "__main__":
    sys.exit(main())
