"""Side finding 5 (unmodified tree, minor): force regeneration does not restore an external core package completely.

An external core (core_package outside the output package) is never cleaned, and CoreEmitter writes py.typed only
`if not os.path.exists(...)`. A py.typed with other content (PEP 561 allows "partial\n"), like any stray file in
the core directory, therefore survives `force=True`; the tree then differs from what the same document and options
give in an empty project, and neither run mode ever notices (the comparison ignores non-*.py files, see side_4).

Exit 1 when the defect shows, 0 otherwise.   Run: PYTHONPATH=<tree>/src /venv/bin/python side_5.py
"""
import hashlib, json, logging, shutil, sys, tempfile, warnings
from pathlib import Path

logging.disable(logging.CRITICAL)
warnings.simplefilter("ignore")
from pyopenapi_gen import generate_client  # noqa: E402

SPEC = {
    "openapi": "3.0.3",
    "info": {"title": "t", "version": "1"},
    "paths": {"/x": {"get": {"operationId": "getX", "responses": {"200": {"description": "ok"}}}}},
}


def tree(root: Path) -> dict:
    return {p.relative_to(root).as_posix(): hashlib.sha256(p.read_bytes()).hexdigest() for p in sorted(root.rglob("*")) if p.is_file()}


work = Path(tempfile.mkdtemp(prefix="c09_side5_"))
try:
    (work / "s.json").write_text(json.dumps(SPEC))
    a, b = work / "a", work / "b"
    a.mkdir()
    b.mkdir()
    kw = dict(core_package="shared.core", force=True, no_postprocess=True)
    generate_client(str(work / "s.json"), str(a), "client", **kw)
    (a / "shared" / "core" / "py.typed").write_text("partial\n")
    (a / "shared" / "core" / "left_over.py").write_text("x = 1\n")
    generate_client(str(work / "s.json"), str(a), "client", **kw)  # force: expected to restore the output
    generate_client(str(work / "s.json"), str(b), "client", **kw)
    ta, tb = tree(a), tree(b)
    if ta != tb:
        print("DEFECT: force regeneration left:", sorted(k for k in set(ta) | set(tb) if ta.get(k) != tb.get(k)))
        sys.exit(1)
    print("ok")
finally:
    shutil.rmtree(work, ignore_errors=True)
