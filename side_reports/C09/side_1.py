"""Side finding 1 (unmodified tree): two clients that share a core package make every re-run without force fail.

Client A declares a 404, client B a 500. Both are generated (force) with core_package="shared.core"; the shared
exception_aliases.py / core __init__.py then hold the union {404, 500} (taken from .exception_registry.json).
The diff path of a run WITHOUT force renders the core into an empty temporary directory, where no registry
exists, so it renders only the client's own codes and reports "Differences found" although nothing changed.

Exit 1 when the defect shows, 0 otherwise.   Run: PYTHONPATH=<tree>/src /venv/bin/python side_1.py
"""
import contextlib, io, json, logging, shutil, sys, tempfile, warnings
from pathlib import Path

logging.disable(logging.CRITICAL)
warnings.simplefilter("ignore")
from pyopenapi_gen import GenerationError, generate_client  # noqa: E402


def spec(code: str) -> dict:
    return {
        "openapi": "3.0.3",
        "info": {"title": "t", "version": "1"},
        "paths": {"/x": {"get": {"operationId": "getX", "responses": {"200": {"description": "ok"}, code: {"description": "e"}}}}},
    }


work = Path(tempfile.mkdtemp(prefix="c09_side1_"))
try:
    (work / "a.json").write_text(json.dumps(spec("404")))
    (work / "b.json").write_text(json.dumps(spec("500")))
    root = work / "proj"
    root.mkdir()
    generate_client(str(work / "a.json"), str(root), "clients.a", core_package="shared.core", force=True, no_postprocess=True)
    generate_client(str(work / "b.json"), str(root), "clients.b", core_package="shared.core", force=True, no_postprocess=True)
    failed = []
    for name in ("a", "b"):
        try:
            with contextlib.redirect_stdout(io.StringIO()):
                generate_client(str(work / f"{name}.json"), str(root), f"clients.{name}", core_package="shared.core", no_postprocess=True)
        except GenerationError as exc:
            failed.append(f"clients.{name}: {exc}")
    if failed:
        print("DEFECT: re-run without force over up-to-date output fails:")
        for line in failed:
            print("  ", line)
        sys.exit(1)
    print("ok: re-runs are no-ops")
finally:
    shutil.rmtree(work, ignore_errors=True)
