"""Side finding 4 (unmodified tree): the run without force reports success for outputs that differ from what would be
generated now. `_show_diffs` only walks the *.py files of the NEW tree and compares `str.splitlines()` lists, so

  a) a file that exists only in the old output (a module of a schema / tag that the document no longer has, or any
     stray *.py) is never looked at,
  b) files that are not *.py are never compared (py.typed, the core README.md, .exception_registry.json): they may be
     changed or deleted,
  c) a difference that str.splitlines() hides is no difference: a removed final newline, CRLF instead of LF, a form
     feed instead of a newline.

Each variant below tampers with a freshly generated output and expects the run without force to FAIL.
Exit 1 when at least one variant is reported as "no differences", 0 otherwise.
Run: PYTHONPATH=<tree>/src /venv/bin/python side_4.py
"""
import contextlib, io, json, logging, shutil, sys, tempfile, warnings
from pathlib import Path

logging.disable(logging.CRITICAL)
warnings.simplefilter("ignore")
from pyopenapi_gen import GenerationError, generate_client  # noqa: E402

SPEC = {
    "openapi": "3.0.3",
    "info": {"title": "t", "version": "1"},
    "paths": {"/x": {"get": {"operationId": "getX", "responses": {"200": {"description": "ok"}, "404": {"description": "nf"}}}}},
    "components": {"schemas": {"Pet": {"type": "object", "properties": {"name": {"type": "string"}}}}},
}


def stale_module(root: Path) -> None:
    (root / "client" / "models" / "removed_schema.py").write_text("class RemovedSchema:\n    pass\n")


def delete_marker(root: Path) -> None:
    (root / "client" / "py.typed").unlink()


def edit_readme(root: Path) -> None:
    (root / "client" / "core" / "README.md").write_text("something else entirely\n")


def edit_registry(root: Path) -> None:
    (root / "client" / "core" / ".exception_registry.json").write_text('{"client": [404, 418]}')


def crlf(root: Path) -> None:
    p = root / "client" / "models" / "pet.py"
    p.write_bytes(p.read_bytes().replace(b"\n", b"\r\n"))


def drop_final_newline(root: Path) -> None:
    p = root / "client" / "core" / "config.py"
    p.write_bytes(p.read_bytes().rstrip(b"\n"))


def form_feed(root: Path) -> None:
    p = root / "client" / "models" / "pet.py"
    data = p.read_bytes()
    first = data.index(b"\n")
    p.write_bytes(data[:first] + b"\x0c" + data[first + 1 :])  # first newline -> form feed (two lines become one)


VARIANTS = [stale_module, delete_marker, edit_readme, edit_registry, crlf, drop_final_newline, form_feed]

work = Path(tempfile.mkdtemp(prefix="c09_side4_"))
unnoticed = []
try:
    (work / "s.json").write_text(json.dumps(SPEC))
    for variant in VARIANTS:
        root = work / variant.__name__
        root.mkdir()
        generate_client(str(work / "s.json"), str(root), "client", force=True, no_postprocess=True)
        variant(root)
        try:
            with contextlib.redirect_stdout(io.StringIO()):
                generate_client(str(work / "s.json"), str(root), "client", no_postprocess=True)
            unnoticed.append(variant.__name__)
        except GenerationError:
            pass
    if unnoticed:
        print("DEFECT: run without force reported success although the output differs:", ", ".join(unnoticed))
        sys.exit(1)
    print("ok: every tampering was noticed")
finally:
    shutil.rmtree(work, ignore_errors=True)
