"""Side finding 3 (unmodified tree): a core package below a sibling whose directory name starts with the client's
directory name (output a.client, core a.client_core.core) - with post-processing ON the re-run without force fails.

client_generator decides whether the core needs its own chain of ancestor __init__.py files with
`str(core_dir).startswith(str(out_dir))` - a comparison of strings, not of path components. For
<root>/a/client_core/core vs <root>/a/client it is true, so a/client_core/__init__.py is never written by the direct
path; the diff path (which mirrors ancestor markers into its temporary tree) does create it. Ruff's import sorting
classifies `a.client_core.core...` by the package structure it finds, sorts the imports of the two trees differently,
and the run without force reports "Differences found" for an output that is up to date.

Needs `python -m ruff` (present in /venv). Exit 1 when the defect shows, 0 otherwise.
Run: PYTHONPATH=<tree>/src /venv/bin/python side_3.py
"""
import contextlib, io, json, logging, shutil, sys, tempfile, warnings
from pathlib import Path

logging.disable(logging.CRITICAL)
warnings.simplefilter("ignore")
from pyopenapi_gen import GenerationError, generate_client  # noqa: E402

SPEC = {
    "openapi": "3.0.3",
    "info": {"title": "t", "version": "1"},
    "paths": {"/x": {"get": {"operationId": "getX", "responses": {"200": {"description": "ok"}, "404": {"description": "nf"}}}}},
}
work = Path(tempfile.mkdtemp(prefix="c09_side3_"))
try:
    (work / "s.json").write_text(json.dumps(SPEC))
    root = work / "proj"
    root.mkdir()
    sink = io.StringIO()
    with contextlib.redirect_stdout(sink), contextlib.redirect_stderr(sink):
        generate_client(str(work / "s.json"), str(root), "a.client", core_package="a.client_core.core", force=True)
    marker = root / "a" / "client_core" / "__init__.py"
    print(f"a/client_core/__init__.py written by the direct path: {marker.exists()}")
    try:
        with contextlib.redirect_stdout(sink), contextlib.redirect_stderr(sink):
            generate_client(str(work / "s.json"), str(root), "a.client", core_package="a.client_core.core")
    except GenerationError as exc:
        print(f"DEFECT: re-run without force over the output just generated fails: {exc}")
        sys.exit(1)
    print("ok")
finally:
    shutil.rmtree(work, ignore_errors=True)
