"""Side finding 2 (unmodified tree): with post-processing ON the output depends on a Ruff configuration found
above the output location, and the re-run without force then always fails.

Ruff discovers its configuration from the ancestors of the files it is given. The direct path formats the files
where they finally live (below the project root - which here has a pyproject.toml with [tool.ruff] line-length = 120,
a very common setting), the diff path formats a copy below the system temp directory (default settings). So
  * the same document and options give different bytes in a project with and without such a file, and
  * a run without force over the output that was just generated reports "Differences found".

Needs `python -m ruff` (present in /venv). Exit 1 when the defect shows, 0 otherwise.
Run: PYTHONPATH=<tree>/src /venv/bin/python side_2.py
"""
import contextlib, hashlib, io, json, logging, shutil, sys, tempfile, warnings
from pathlib import Path

logging.disable(logging.CRITICAL)
warnings.simplefilter("ignore")
from pyopenapi_gen import GenerationError, generate_client  # noqa: E402

SPEC = {
    "openapi": "3.0.3",
    "info": {"title": "t", "version": "1"},
    "paths": {"/x": {"get": {"operationId": "getX", "responses": {"200": {"description": "ok"}}}}},
}


def tree(root: Path) -> dict:
    return {p.relative_to(root).as_posix(): hashlib.sha256(p.read_bytes()).hexdigest() for p in sorted((root / "client").rglob("*.py"))}


work = Path(tempfile.mkdtemp(prefix="c09_side2_"))
try:
    (work / "s.json").write_text(json.dumps(SPEC))
    plain, configured = work / "plain", work / "configured"
    plain.mkdir()
    configured.mkdir()
    (configured / "pyproject.toml").write_text("[tool.ruff]\nline-length = 120\n")
    sink = io.StringIO()
    with contextlib.redirect_stdout(sink), contextlib.redirect_stderr(sink):
        generate_client(str(work / "s.json"), str(plain), "client", force=True)
        generate_client(str(work / "s.json"), str(configured), "client", force=True)
    bad = False
    differing = [n for n in tree(plain) if tree(plain)[n] != tree(configured).get(n)]
    if differing:
        bad = True
        print(f"DEFECT: {len(differing)} generated files differ between two project roots, e.g. {differing[:3]}")
    try:
        with contextlib.redirect_stdout(sink), contextlib.redirect_stderr(sink):
            generate_client(str(work / "s.json"), str(configured), "client")
    except GenerationError as exc:
        bad = True
        print(f"DEFECT: re-run without force over the output just generated fails: {exc}")
    if bad:
        sys.exit(1)
    print("ok")
finally:
    shutil.rmtree(work, ignore_errors=True)
