#!/usr/bin/env python
"""Property keys that YAML does not read as strings (no, on, off, yes, 2024, 1.5, null) are silently dropped from the model.

Side finding on the UNMODIFIED tree (property C02).  Run:  PYTHONPATH=<tree>/src /venv/bin/python side_10.py
exit 1 = the defect shows, exit 0 = not reproduced.

_parse_properties skips every key that is not a str with a logger.warning; generation succeeds and the model simply
lacks the field (ISO country code "no", switch states "on"/"off", year buckets ...). The same document written as
JSON keeps all four fields.
"""
import ast, logging, shutil, sys, tempfile, warnings
from pathlib import Path

logging.disable(logging.CRITICAL)
warnings.simplefilter("ignore")
from pyopenapi_gen import generate_client  # noqa: E402

SPEC = """
openapi: 3.0.3
info: {title: t, version: "1"}
paths:
  /x:
    get:
      operationId: getX
      tags: [t]
      summary: s
      responses:
        "200":
          description: ok
          content:
            application/json:
              schema: {$ref: "#/components/schemas/Country"}
components:
  schemas:
    Country:
      type: object
      required: [se]
      properties:
        se: {type: string}
        no: {type: string}
        on: {type: boolean}
        2024: {type: integer}
"""

root = Path(tempfile.mkdtemp(prefix="c02_side_"))
try:
    (root / "spec.yaml").write_text(SPEC)
    generate_client(
        spec_path=str(root / "spec.yaml"), project_root=str(root), output_package="cli", force=True, no_postprocess=True
    )
    src = (root / "cli" / "models" / "country.py").read_text()
finally:
    shutil.rmtree(root, ignore_errors=True)

fields = [
    b.target.id
    for node in ast.parse(src).body
    if isinstance(node, ast.ClassDef)
    for b in node.body
    if isinstance(b, ast.AnnAssign)
]
print("Country declares 4 properties (se, no, on, 2024); the model has fields:", fields)
if len(fields) != 4:
    print(f"DEFECT SHOWS: {4 - len(fields)} declared properties have no field and generation reported success")
    sys.exit(1)
print("not reproduced")
sys.exit(0)
