#!/usr/bin/env python
"""An enum schema without an explicit 'type' is not an enum in the output: integer values become a float alias, and so do booleans.

Side finding on the UNMODIFIED tree (property C02).  Run:  PYTHONPATH=<tree>/src /venv/bin/python side_9.py
exit 1 = the defect shows, exit 0 = not reproduced.
"""
import ast, json, logging, shutil, sys, tempfile, warnings
from pathlib import Path

logging.disable(logging.CRITICAL)
warnings.simplefilter("ignore")
from pyopenapi_gen import generate_client  # noqa: E402


def R(name):
    return {"$ref": "#/components/schemas/" + name}


def obj(required=(), **props):
    node = {"type": "object", "properties": props}
    if required:
        node["required"] = list(required)
    return node


STR, INT = {"type": "string"}, {"type": "integer"}


def spec_of(schemas):
    first = next(iter(schemas))
    return {
        "openapi": "3.0.3",
        "info": {"title": "t", "version": "1"},
        "paths": {"/x": {"get": {"operationId": "getX", "tags": ["t"], "summary": "s", "responses": {"200": {
            "description": "ok", "content": {"application/json": {"schema": R(first)}}}}}}},
        "components": {"schemas": schemas},
    }


def models_of(schemas, keep=None):
    """Generate a client and read models/*.py back: class name -> {json key: (field name, annotation, has default)};
    alias name -> target string. (Read with ast, so that an un-importable package can still be inspected.)"""
    root = Path(tempfile.mkdtemp(prefix="c02_side_"))
    try:
        (root / "spec.json").write_text(json.dumps(spec_of(schemas)))
        generate_client(spec_path=str(root / "spec.json"), project_root=str(root), output_package="cli",
                        force=True, no_postprocess=True)
        out = {}
        for f in sorted((root / "cli" / "models").glob("*.py")):
            if f.name == "__init__.py":
                continue
            for node in ast.parse(f.read_text()).body:
                if isinstance(node, ast.ClassDef):
                    fields, load = {}, {}
                    for b in node.body:
                        if isinstance(b, ast.AnnAssign):
                            fields[b.target.id] = (ast.unparse(b.annotation), b.value is not None)
                        if isinstance(b, ast.ClassDef) and b.name == "Meta":
                            for mb in b.body:
                                if isinstance(mb, ast.Assign) and mb.targets[0].id == "key_transform_with_load":
                                    load = ast.literal_eval(mb.value)
                    bases = [ast.unparse(x) for x in node.bases]
                    if any("Enum" in x for x in bases):
                        out[node.name] = "enum(" + ", ".join(
                            repr(ast.literal_eval(b.value)) for b in node.body if isinstance(b, ast.Assign)) + ")"
                    else:
                        out[node.name] = {k: (v,) + fields.get(v, ("<missing>", None)) for k, v in load.items()}
                elif isinstance(node, ast.AnnAssign) and ast.unparse(node.annotation) == "TypeAlias":
                    out[node.target.id] = "alias " + ast.unparse(node.value)
        if keep is not None:
            keep(root)
        return out
    finally:
        shutil.rmtree(root, ignore_errors=True)


def show(models):
    for name, m in models.items():
        if isinstance(m, dict):
            print("     class", name, {k: v[1] for k, v in m.items()})
        else:
            print("    ", name, "=", m)


def keys(models, cls):
    m = models.get(cls)
    return sorted(m) if isinstance(m, dict) else None


def ann(models, cls, key):
    m = models.get(cls)
    return m[key][1] if isinstance(m, dict) and key in m else None


bad = []


def expect(cond, msg):
    if not cond:
        bad.append(msg)


def finish():
    if bad:
        print("DEFECT SHOWS:")
        for b in bad:
            print("  -", b)
        sys.exit(1)
    print("not reproduced")
    sys.exit(0)

m = models_of({"Use": obj(level=R("Level"), flag=R("Flag")), "Level": {"enum": [1, 2, 3]}, "Flag": {"enum": [True, False]}})
show(m)
expect(str(m.get("Level")).startswith("enum"), f"Level (enum 1,2,3) is emitted as {m.get('Level')!r}")
expect("float" not in str(m.get("Flag")), f"Flag (enum true,false) is emitted as {m.get('Flag')!r}")
finish()
