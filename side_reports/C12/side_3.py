"""Side finding 3 (unmodified tree): RenderContext.add_import "repairs" module paths that need no repair, and the
client then imports a module of its own package that does not exist instead of its designated core / the stdlib.

add_import() first rewrites any logical module that starts with "<output package minus its first segment>." by
prefixing the first segment ("business.models.x" -> "pyapis.business.models.x").  That test also matches

  a) an external core package whose first segment equals that suffix:
       output_package="pyapis.business", core_package="business.core"
       -> "business.core.http_transport" becomes "pyapis.business.core.http_transport" -> `from .core.http_transport`
  b) a standard-library package of the same name:
       output_package="acme.collections" and a schema with typed additionalProperties
       -> "collections.abc" becomes "acme.collections.abc" -> `from ..abc import ItemsView, ...`

Both layouts are legal and both clients fail at import time (with or without the generator installed).
Exit 1 when either case fails.
"""
import sys

from _side_common import PET_SPEC, generate, run_without_generator, workdir

BAG_SPEC = {
    "openapi": "3.0.3",
    "info": {"title": "t", "version": "1"},
    "paths": {
        "/bag": {
            "get": {
                "tags": ["things"],
                "operationId": "getBag",
                "responses": {
                    "200": {
                        "description": "ok",
                        "content": {"application/json": {"schema": {"$ref": "#/components/schemas/Bag"}}},
                    }
                },
            }
        }
    },
    "components": {
        "schemas": {
            "Item": {"type": "object", "properties": {"n": {"type": "string"}}},
            "Bag": {"type": "object", "additionalProperties": {"$ref": "#/components/schemas/Item"}},
        }
    },
}

failed = False
with workdir("c12_side3_") as work:
    root = generate(work, PET_SPEC, "pyapis.business", core_package="business.core", name="a")
    r = run_without_generator(root, "import pyapis.business.client\nprint('ok')\n")
    print("a) output=pyapis.business core=business.core:", "ok" if r.returncode == 0 else r.stderr.strip().splitlines()[-1])
    line = next(l for l in (root / "pyapis/business/client.py").read_text().splitlines() if "http_transport" in l)
    print("   client.py:", line)
    failed |= r.returncode != 0

    root = generate(work, BAG_SPEC, "acme.collections", name="b")
    r = run_without_generator(root, "import acme.collections.client\nprint('ok')\n")
    print("b) output=acme.collections:", "ok" if r.returncode == 0 else r.stderr.strip().splitlines()[-1])
    line = next(l for l in (root / "acme/collections/models/bag.py").read_text().splitlines() if "ItemsView" in l)
    print("   models/bag.py:", line)
    failed |= r.returncode != 0
sys.exit(1 if failed else 0)
