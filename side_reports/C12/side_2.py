"""Side finding 2 (unmodified tree): every emitted client contains an import of `black`.

core/utils.py is shipped verbatim as a runtime module, but it is a mixed module: next to the runtime helpers
(DataclassSerializer, encode_path_value) it holds generation-time helpers (NameSanitizer, Formatter, ...).
Formatter.__init__ does `from black import FileMode, format_str` (inside try/except ImportError, nested in a
method).  So by the letter of C12 - "every import statement (top-level, nested in functions, ...) of every
emitted file" - each client imports something outside stdlib/httpx/cattrs/itself, and ships generator code.

Exit 1 when the import is found in the emitted core.
"""
import ast
import sys

from _side_common import PET_SPEC, generate, workdir

hits = []
with workdir("c12_side2_") as work:
    root = generate(work, PET_SPEC, "petstore_client")
    for path in sorted(root.rglob("*.py")):
        for node in ast.walk(ast.parse(path.read_text())):
            names = []
            if isinstance(node, ast.Import):
                names = [a.name for a in node.names]
            elif isinstance(node, ast.ImportFrom) and node.level == 0:
                names = [node.module or ""]
            for name in names:
                top = name.split(".")[0]
                if top not in sys.stdlib_module_names and top not in ("httpx", "cattrs", "petstore_client"):
                    hits.append(f"{path.relative_to(root)}:{node.lineno}: imports '{name}'")
for h in hits:
    print(h)
print("emitted client imports a module outside stdlib/httpx/cattrs/itself" if hits else "clean")
sys.exit(1 if hits else 0)
