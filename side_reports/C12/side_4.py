"""Side finding 4 (unmodified tree): a nested import inside AnimalDiscriminator.get_mapping() targets a module that
is not part of the emitted package.

A discriminator mapping value may be a schema name or any reference, including one into another document
("https://example.com/other.yaml#/components/schemas/Wolf").  python_construct_renderer takes the last path
segment of every mapping value and writes `from .wolf import Wolf` into get_mapping() whether or not such a model
is emitted.  The import is nested in a function, so importing the package succeeds and nothing notices until
get_mapping() is called.

Exit 1 when get_mapping() raises.
"""
import sys

from _side_common import generate, run_without_generator, workdir

SPEC = {
    "openapi": "3.0.3",
    "info": {"title": "t", "version": "1"},
    "paths": {
        "/a": {
            "get": {
                "tags": ["things"],
                "operationId": "getAnimal",
                "responses": {
                    "200": {
                        "description": "ok",
                        "content": {"application/json": {"schema": {"$ref": "#/components/schemas/Animal"}}},
                    }
                },
            }
        }
    },
    "components": {
        "schemas": {
            "Cat": {"type": "object", "required": ["kind"], "properties": {"kind": {"type": "string", "enum": ["cat"]}}},
            "Dog": {
                "type": "object",
                "required": ["kind"],
                "properties": {"kind": {"type": "string", "enum": ["dog", "wolf"]}},
            },
            "Animal": {
                "oneOf": [{"$ref": "#/components/schemas/Cat"}, {"$ref": "#/components/schemas/Dog"}],
                "discriminator": {
                    "propertyName": "kind",
                    "mapping": {
                        "cat": "#/components/schemas/Cat",
                        "dog": "#/components/schemas/Dog",
                        "wolf": "https://example.com/schemas/other.yaml#/components/schemas/Wolf",
                    },
                },
            },
        }
    },
}

with workdir("c12_side4_") as work:
    root = generate(work, SPEC, "zoo_client")
    r = run_without_generator(
        root,
        "import zoo_client.client\n"
        "from zoo_client.models.animal import AnimalDiscriminator\n"
        "print('package imports fine')\n"
        "print(AnimalDiscriminator().get_mapping())\n",
    )
print(r.stdout.strip())
if r.returncode != 0:
    print(r.stderr.strip().splitlines()[-1])
sys.exit(1 if r.returncode != 0 else 0)
