"""Side finding 5 (unmodified tree, "the package works" part of C12 only): two further inputs / layouts for which the
emitted package cannot be imported at all, generator installed or not.

  a) core_package == output_package (the generator has explicit `core_dir != out_dir` handling, so the layout is
     anticipated): the "rich" client __init__.py - a one-line comment, because its lines are joined with a
     literal backslash-n - overwrites the core's __init__.py, and `from acme.api import NotFoundError` fails.
  b) two schemas that reference each other (A.b: B, B.a: A): models/a.py does `from .b import B` and
     models/b.py does `from .a import A` at module level -> circular import.

Exit 1 when either fails.
"""
import sys

from _side_common import PET_SPEC, generate, run_without_generator, workdir

CYCLE_SPEC = {
    "openapi": "3.0.3",
    "info": {"title": "t", "version": "1"},
    "paths": {
        "/a": {
            "get": {
                "tags": ["things"],
                "operationId": "getA",
                "responses": {
                    "200": {
                        "description": "ok",
                        "content": {"application/json": {"schema": {"$ref": "#/components/schemas/A"}}},
                    }
                },
            }
        }
    },
    "components": {
        "schemas": {
            "A": {"type": "object", "properties": {"b": {"$ref": "#/components/schemas/B"}}},
            "B": {"type": "object", "properties": {"a": {"$ref": "#/components/schemas/A"}}},
        }
    },
}

failed = False
with workdir("c12_side5_") as work:
    root = generate(work, PET_SPEC, "acme.api", core_package="acme.api", name="a")
    r = run_without_generator(root, "import acme.api.client\nprint('ok')\n")
    print("a) core_package == output_package:", "ok" if r.returncode == 0 else r.stderr.strip().splitlines()[-1])
    failed |= r.returncode != 0
    root = generate(work, CYCLE_SPEC, "cyc_client", name="b")
    r = run_without_generator(root, "import cyc_client.client\nprint('ok')\n")
    print("b) mutually recursive schemas:", "ok" if r.returncode == 0 else r.stderr.strip().splitlines()[-1])
    failed |= r.returncode != 0
sys.exit(1 if failed else 0)
