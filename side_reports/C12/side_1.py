"""Side finding 1 (unmodified tree): with post-processing ON - the default of the CLI and of generate_client() -
the runtime modules in the emitted core are NOT byte-for-byte the modules shipped with the generator.

PostprocessManager runs `ruff check --fix` / `ruff format` over *all* generated files, the verbatim copies of
http_transport.py, cattrs_converter.py, utils.py ... included.  ruff takes its configuration from the nearest
pyproject.toml above the *output* directory; without one it uses line-length 88, while the shipped modules are
formatted for 120, so 7 of the 8 runtime modules are rewritten (and how they are rewritten depends on where the
project root happens to live).

Exit 1 when a runtime module differs from the shipped one.  Needs ruff (present in /venv); exits 0 with a note
when ruff is not available.
"""
import importlib.resources
import subprocess
import sys

from _side_common import PET_SPEC, generate, workdir

if subprocess.run([sys.executable, "-m", "ruff", "--version"], capture_output=True).returncode != 0:
    print("ruff is not installed: post-processing is a no-op here, nothing to show")
    sys.exit(0)

from pyopenapi_gen.emitters.core_emitter import RUNTIME_FILES

with workdir("c12_side1_") as work:
    root = generate(work, PET_SPEC, "petstore_client", no_postprocess=False)
    differing = []
    for module, filename, rel_dst in RUNTIME_FILES:
        shipped = importlib.resources.files(module).joinpath(filename).read_bytes()
        emitted = (root / "petstore_client" / rel_dst).read_bytes()
        if shipped != emitted:
            differing.append(f"{rel_dst}: shipped {len(shipped)} bytes, emitted {len(emitted)} bytes")
    # control: with no_postprocess=True the copies are identical
    root2 = generate(work, PET_SPEC, "petstore_client", no_postprocess=True, name="proj_nopp")
    control = [
        rel_dst
        for module, filename, rel_dst in RUNTIME_FILES
        if importlib.resources.files(module).joinpath(filename).read_bytes()
        != (root2 / "petstore_client" / rel_dst).read_bytes()
    ]

print(f"no_postprocess=True : {len(control)} runtime module(s) differ from the shipped ones")
print(f"no_postprocess=False: {len(differing)} runtime module(s) differ from the shipped ones")
for d in differing:
    print("  " + d)
sys.exit(1 if differing else 0)
