#!/usr/bin/env python
"""
Side finding 7 (unmodified tree): format: binary strings are base64-decoded, so ordinary strings are rejected or altered

format 'binary' maps to bytes with the base64 hook (format 'byte', the base64 one, maps to str). 'hello' is rejected; 'abcd' round-trips only by luck of being base64.

Run as: PYTHONPATH=<tree>/src /venv/bin/python side_7.py   (exit 1 when the defect shows)
"""

from __future__ import annotations

import importlib
import json
import logging
import shutil
import subprocess
import sys
import tempfile
import warnings
from pathlib import Path

logging.disable(logging.CRITICAL)
warnings.simplefilter("ignore")


def ref(name):
    return {"$ref": "#/components/schemas/" + name}


def obj(properties, required=None, **extra):
    schema = {"type": "object", "properties": properties}
    if required:
        schema["required"] = required
    schema.update(extra)
    return schema


STR = {"type": "string"}


def differences(sent, got, path="$"):
    """Input vs round-tripped JSON; an absent optional key may come back as null / [] / {}."""
    if isinstance(sent, dict) and isinstance(got, dict):
        out = []
        for key in got:
            if key not in sent and got[key] not in (None, [], {}):
                out.append(f"{path}.{key}: appeared with value {got[key]!r}")
        for key in sent:
            if key not in got:
                out.append(f"{path}.{key}: wire key lost (was {sent[key]!r})")
            else:
                out.extend(differences(sent[key], got[key], f"{path}.{key}"))
        return out
    if isinstance(sent, list) and isinstance(got, list):
        if len(sent) != len(got):
            return [f"{path}: {len(sent)} items became {len(got)}"]
        out = []
        for index, (a, b) in enumerate(zip(sent, got)):
            out.extend(differences(a, b, f"{path}[{index}]"))
        return out
    same_kind = type(sent) is type(got) or (
        isinstance(sent, (int, float)) and isinstance(got, (int, float))
        and not isinstance(sent, bool) and not isinstance(got, bool)
    )
    if sent != got or not same_kind:
        return [f"{path}: {sent!r} became {got!r}"]
    return []


def check(schemas, cases, package="side_client"):
    """Generate a client for `schemas`, round-trip every (model name, document); return list of problems."""
    from pyopenapi_gen import generate_client

    root_schema = next(iter(schemas))
    spec = {
        "openapi": "3.0.3",
        "info": {"title": "side finding", "version": "1"},
        "paths": {"/x": {"get": {"operationId": "getX", "tags": ["x"], "summary": "x", "responses": {"200": {
            "description": "ok", "content": {"application/json": {"schema": ref(root_schema)}}}}}}},
        "components": {"schemas": schemas},
    }
    problems = []
    project_root = Path(tempfile.mkdtemp(prefix="c03_side_"))
    try:
        (project_root / "spec.json").write_text(json.dumps(spec))
        generate_client(spec_path=str(project_root / "spec.json"), project_root=str(project_root),
                        output_package=package, force=True, no_postprocess=True)
        sys.path.insert(0, str(project_root))
        try:
            models = importlib.import_module(package + ".models")
            conv = importlib.import_module(package + ".core.cattrs_converter")
        except Exception as exc:
            return [f"generated models package cannot be imported: {type(exc).__name__}: {exc}"]
        for model_name, document in cases:
            sent = json.loads(json.dumps(document))
            try:
                target = getattr(models, model_name, None)
                if target is None:  # emitted but not exported from models/__init__.py
                    import pkgutil

                    for info in pkgutil.iter_modules(models.__path__):
                        module = importlib.import_module(f"{package}.models.{info.name}")
                        target = target or getattr(module, model_name, None)
                instance = conv.structure_from_dict(json.loads(json.dumps(document)), target)
                got = json.loads(json.dumps(conv.unstructure_to_dict(instance)))
            except Exception as exc:
                problems.append(f"{model_name} {json.dumps(sent)} rejected: {type(exc).__name__}: "
                                + " / ".join(str(exc).splitlines()[:3])[:400])
                continue
            diffs = differences(sent, got)
            if diffs:
                problems.append(f"{model_name} {json.dumps(sent)} came back as {json.dumps(got)}: " + "; ".join(diffs))
    finally:
        sys.path[:] = [p for p in sys.path if p != str(project_root)]
        for name in [m for m in sys.modules if m == package or m.startswith(package + ".")]:
            del sys.modules[name]
        shutil.rmtree(project_root, ignore_errors=True)
    return problems


def report(title, problems):
    if problems:
        print("DEFECT SHOWS - " + title)
        for problem in problems:
            print("  - " + problem)
        sys.exit(1)
    print("no defect observed - " + title)
    sys.exit(0)

SCHEMAS = {"Doc": obj({"blob": {"type": "string", "format": "binary"}}, ["blob"])}
CASES = [("Doc", {"blob": "hello"}), ("Doc", {"blob": "a b=="})]


if __name__ == "__main__":
    report('format: binary strings are base64-decoded, so ordinary strings are rejected or altered', check(SCHEMAS, CASES))
