#!/usr/bin/env python
"""Side finding 1 (unmodified tree): DataclassSerializer.serialize does not terminate on reference cycles
as soon as the annotations of the dataclass can be resolved (RecursionError instead of a result).

Run: PYTHONPATH=<tree>/src /venv/bin/python side_1.py      exit 1 = defect shows
"""
import dataclasses
import json
import sys
from typing import Any, Dict, List, Optional

from pyopenapi_gen.core.utils import DataclassSerializer

shown = []


def attempt(label, obj):
    try:
        out = DataclassSerializer.serialize(obj)
        json.dumps(out)
        print(f"ok      {label}: {out}")
    except RecursionError:
        print(f"DEFECT  {label}: RecursionError")
        shown.append(label)


# (a) control - the only shape the test-suite uses: a class local to a function whose self reference is an
#     unresolvable ForwardRef inside Optional[...]; cattrs leaves the nested instance alone and the wrapper's
#     visited-set sees it.
def control():
    @dataclasses.dataclass
    class Local:
        name: str
        parent: Optional["Local"] = None

    a = Local("a")
    b = Local("b", parent=a)
    a.parent = b
    attempt("(a) control: unresolvable forward reference", a)


control()


# (b) the way generated models spell a self reference: the whole annotation is one string that resolves at
#     module level (generated code: parent_node: "TreeNode | None").
@dataclasses.dataclass
class TreeNode:
    node_id: str
    parent_node: "TreeNode | None" = None
    child_nodes: "List[TreeNode] | None" = dataclasses.field(default_factory=list)


root = TreeNode("root")
kid = TreeNode("kid", parent_node=root)
root.child_nodes = [kid]
attempt("(b) parent <-> child, annotations as in generated models", root)

selfref = TreeNode("self")
selfref.parent_node = selfref
attempt("(c) self reference through Optional", selfref)


# (d) cycle through a free-form dict / Any field
@dataclasses.dataclass
class Bag:
    name: str
    extra: Optional[Dict[str, Any]] = None


bag = Bag("bag")
bag.extra = {"me": bag}
attempt("(d) dataclass -> dict[str, Any] -> same dataclass", bag)

# (e) a plain dict that contains itself
d: Dict[str, Any] = {"k": 1}
d["self"] = d
attempt("(e) dict containing itself", d)

sys.exit(1 if shown else 0)
