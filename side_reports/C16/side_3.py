#!/usr/bin/env python
"""Side finding 3 (unmodified tree): whether wire-key maps are applied on ENCODE depends on history.

unstructure_to_dict / DataclassSerializer.serialize register the renaming hooks only for the dataclass type of
the top-level object. A mapped dataclass that is reached only through a container (top-level list, dict, a field
typed Any / Dict[str, Any]) is encoded with its PYTHON field names - unless that class happens to have been
encoded on its own earlier in the process, in which case the very same call produces the wire keys.
structure_from_dict, in contrast, does accept List[T] / Dict[str, T] at the top level, so encode -> decode of a
list of instances fails.

Run: PYTHONPATH=<tree>/src /venv/bin/python side_3.py      exit 1 = defect shows
"""
import dataclasses
import sys
from typing import Any, Dict, List, Optional

from pyopenapi_gen.core.cattrs_converter import structure_from_dict, unstructure_to_dict
from pyopenapi_gen.core.utils import DataclassSerializer


def fresh():
    @dataclasses.dataclass
    class Item:
        id_: int

        class Meta:
            key_transform_with_load = {"id": "id_"}
            key_transform_with_dump = {"id_": "id"}

    @dataclasses.dataclass
    class Envelope:
        payload: Any = None
        extra: Optional[Dict[str, Any]] = None

    return Item, Envelope


shown = []


def expect(label, got, want):
    if got == want:
        print(f"ok      {label}: {got}")
    else:
        print(f"DEFECT  {label}: got {got}, expected {want}")
        shown.append(label)


Item, Envelope = fresh()
expect("unstructure_to_dict([Item]) - class never encoded before", unstructure_to_dict([Item(1)]), [{"id": 1}])
expect("serialize({'x': Item})", DataclassSerializer.serialize({"x": Item(2)}), {"x": {"id": 2}})
expect("serialize(Envelope(payload=Item))", DataclassSerializer.serialize(Envelope(payload=Item(3))), {"payload": {"id": 3}})
expect(
    "serialize(Envelope(extra={'i': Item}))",
    DataclassSerializer.serialize(Envelope(extra={"i": Item(4)})),
    {"extra": {"i": {"id": 4}}},
)
try:
    back = structure_from_dict(unstructure_to_dict([Item(5)]), List[Item])
    expect("decode(encode([Item]), List[Item])", back, [Item(5)])
except ValueError as exc:
    print(f"DEFECT  decode(encode([Item]), List[Item]) raises: {str(exc).splitlines()[0]} ...")
    shown.append("list round trip")

print("-- now encode one Item on its own, then repeat the first call --")
unstructure_to_dict(Item(0))
expect("unstructure_to_dict([Item]) - after Item was encoded once", unstructure_to_dict([Item(1)]), [{"id": 1}])
sys.exit(1 if shown else 0)
