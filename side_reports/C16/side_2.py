#!/usr/bin/env python
"""Side finding 2 (unmodified tree): a decoding failure below an Optional[...] field is reported without naming
the offending field. Only the Optional field itself is named; the inner error is flattened to
"While structuring Leaf (1 sub-exception)". The message happens to contain a 200-character preview of the
data, so the offending KEY is visible by accident when it is present and early in the object - it is not when
the required key is missing, or when the object is larger than the preview.

Run: PYTHONPATH=<tree>/src /venv/bin/python side_2.py      exit 1 = defect shows
"""
import dataclasses
import sys
from datetime import datetime
from typing import Dict, List, Optional

from pyopenapi_gen.core.cattrs_converter import structure_from_dict


@dataclasses.dataclass
class Leaf:
    note: str
    stamp: datetime
    count: int = 0


@dataclasses.dataclass
class Holder:
    direct: Optional[Leaf] = None
    many: Optional[List[Leaf]] = None
    keyed: Optional[Dict[str, Leaf]] = None


@dataclasses.dataclass
class Control:
    direct: Leaf
    many: List[Leaf] = dataclasses.field(default_factory=list)
    keyed: Dict[str, Leaf] = dataclasses.field(default_factory=dict)


missing = {"note": "n", "count": 1}  # required 'stamp' absent
wide = {"note": "x" * 300, "stamp": "not-a-timestamp", "count": 1}  # bad 'stamp' beyond the data preview
shown = []
for fault_name, leaf in (("required key 'stamp' missing", missing), ("bad 'stamp' in a wide object", wide)):
    for cls in (Control, Holder):
        for field, payload in (("direct", leaf), ("many", [leaf]), ("keyed", {"k": leaf})):
            label = f"{cls.__name__}.{field} ({fault_name})"
            try:
                structure_from_dict({field: payload}, cls)
                print(f"DEFECT  {label}: no error at all")
                shown.append(label)
            except ValueError as exc:
                text = str(exc)
                if "stamp" in text:
                    print(f"ok      {label}: names 'stamp'")
                else:
                    first = " / ".join(line.strip()[:90] for line in text.splitlines()[:2])
                    print(f"DEFECT  {label}: ValueError does not name 'stamp': {first} ...")
                    if cls is Holder:
                        shown.append(label)
sys.exit(1 if shown else 0)
