#!/usr/bin/env python
"""Side finding 4 (unmodified tree, minor): decode -> encode does not return the value for the most common
spelling of a date-time: "...Z" comes back as "...+00:00" (and fractional seconds are re-padded to 6 digits).
Both spellings denote the same instant, so this only matters where the law is read textually.

Run: PYTHONPATH=<tree>/src /venv/bin/python side_4.py      exit 1 = defect shows
"""
import dataclasses
import sys
from datetime import datetime

from pyopenapi_gen.core.cattrs_converter import structure_from_dict, unstructure_to_dict


@dataclasses.dataclass
class Event:
    at: datetime


shown = 0
for text in ("2024-05-06T07:08:09+00:00", "2024-05-06T07:08:09Z", "2024-05-06T07:08:09.5+02:00"):
    out = unstructure_to_dict(structure_from_dict({"at": text}, Event))["at"]
    flag = "ok     " if out == text else "DEFECT "
    shown += out != text
    print(f"{flag} {text!r} -> {out!r}")
sys.exit(1 if shown else 0)
