#!/usr/bin/env python
"""Side finding 5 (unmodified tree): JSON null for a required `str` field is not reported as a decoding failure;
it is silently decoded to the four-character string "None" (cattrs' default str(...) coercion). For a required
nested dataclass the very same situation is reported ("Cannot structure None into ..."), and for int it is a
TypeError, so only str (and bytes-like coercions) slip through.

Run: PYTHONPATH=<tree>/src /venv/bin/python side_5.py      exit 1 = defect shows
"""
import dataclasses
import sys

from pyopenapi_gen.core.cattrs_converter import structure_from_dict, unstructure_to_dict


@dataclasses.dataclass
class User:
    name: str
    age: int = 0


try:
    user = structure_from_dict({"name": None, "age": 3}, User)
except ValueError as exc:
    print(f"ok      null for required str is reported: {str(exc).splitlines()[-1]}")
    sys.exit(0)
print(f"DEFECT  null for a required str field decoded silently to {user!r}; re-encoded as {unstructure_to_dict(user)}")
sys.exit(1)
