#!/usr/bin/env python
"""Side finding 6 (unmodified tree, OUTSIDE property C16 - noticed while building inputs): two schemas that refer
to each other are emitted as two model modules that import each other at module level; the generated package
cannot be imported (ImportError: partially initialized module).

Run: PYTHONPATH=<tree>/src /venv/bin/python side_6.py      exit 1 = defect shows
"""
import importlib
import json
import logging
import shutil
import sys
import tempfile
import warnings
from pathlib import Path

from pyopenapi_gen import generate_client

logging.disable(logging.CRITICAL)
warnings.simplefilter("ignore")
node_ref = {"$ref": "#/components/schemas/TreeNode"}
spec = {
    "openapi": "3.0.3",
    "info": {"title": "T", "version": "1"},
    "paths": {
        "/nodes": {
            "get": {
                "operationId": "listNodes",
                "summary": "s",
                "tags": ["nodes"],
                "responses": {"200": {"description": "ok", "content": {"application/json": {"schema": node_ref}}}},
            }
        }
    },
    "components": {
        "schemas": {
            "TreeNode": {
                "type": "object",
                "properties": {"nodeId": {"type": "string"}, "owner": {"$ref": "#/components/schemas/Owner"}},
            },
            "Owner": {
                "type": "object",
                "properties": {"displayName": {"type": "string"}, "nodes": {"type": "array", "items": node_ref}},
            },
        }
    },
}
root = Path(tempfile.mkdtemp(prefix="c16_side6_"))
pkg = "c16_side6_client"
code = 0
try:
    (root / "spec.json").write_text(json.dumps(spec))
    generate_client(spec_path=str(root / "spec.json"), project_root=str(root), output_package=pkg, force=True, no_postprocess=True)
    sys.path.insert(0, str(root))
    try:
        importlib.import_module(f"{pkg}.models.tree_node")
        print("ok      mutually recursive models import")
    except ImportError as exc:
        print(f"DEFECT  generated models cannot be imported: {exc}")
        code = 1
finally:
    if str(root) in sys.path:
        sys.path.remove(str(root))
    shutil.rmtree(root, ignore_errors=True)
sys.exit(code)
